"""C20 — concurrent state updates are never lost (generated schedules, serializability oracle)."""

from __future__ import annotations

import asyncio
import copy
import json
import os
import shutil
import tempfile

from hypothesis import strategies as st
from pydantic import BaseModel, Field

from .. import boot
from ..runner import CaseResult, Prop

# fixed, type-stable key space: "a","b","cnt" hold ints, "log" a list, "n" a dict of ints
INIT_VALUES = {"a": 1, "cnt": 5, "log": ["i"], "n": {"x": 7}}
STATE_KEYS = ["a", "cnt", "log", "n"]
PUT_KEYS = ["a", "b"]
BACKENDS = ["memory", "sqlite"]

# typed state with inheritance (model == "typed"): same key space, every key has a default that equals what the
# DictState operations assume for an absent key (0 / [] / {}), so the two models share one operation semantics
TYPED_DEFAULTS = {"a": 0, "b": 0, "cnt": 0, "log": [], "n": {}}
BASE_FIELDS = ("a", "log")  # fields of the parent type; b, cnt, n exist on the child type only
CHILD_ONLY = ("b", "cnt", "n")


class C20Base(BaseModel):
    """Parent state type (what an inherited base-workflow step passes to set_state)."""

    a: int = 0
    log: list[str] = Field(default_factory=list)


class C20Child(C20Base):
    """State type of the store; module-level so that JsonSerializer can re-import it by qualified name."""

    b: int = 0
    cnt: int = 0
    n: dict[str, int] = Field(default_factory=dict)


def canon(obj) -> str:
    return json.dumps(obj, sort_keys=True, separators=(",", ":"))


def uniq(ti: int, oi: int, mi: int = 0) -> int:
    """A value that names the operation that wrote it (so overwritten writes are visible)."""
    return 1000 * (ti + 1) + 10 * oi + mi


def set_value(path: str, ti: int, oi: int):
    """Value written by set(path, ...): type-stable per key ("log" stays a list)."""
    return [f"s{ti}.{oi}"] if path == "log" else uniq(ti, oi)


def whole_for(keys, ti, oi) -> dict:
    v = uniq(ti, oi)
    out = {}
    for k in sorted(set(keys)):
        if k in ("a", "cnt"):
            out[k] = v
        elif k == "log":
            out[k] = [f"s{ti}.{oi}"]
        elif k == "n":
            out[k] = {"x": v}
    return out


def parent_for(ti, oi) -> dict:
    """Field values of set_state(C20Base(...)): every parent field is given explicitly (and names its writer)."""
    return {"a": uniq(ti, oi), "log": [f"p{ti}.{oi}"]}


def typed_full(values: dict) -> dict:
    out = copy.deepcopy(TYPED_DEFAULTS)
    out.update(values)
    return out


def child_only_writer(op) -> bool:
    """Does this edit_state block write a field that exists only on the child type?"""
    return any((m[0] in ("incr", "put") and m[1] in CHILD_ONLY) for m in op.get("muts", []))


# ------------------------------------------------------------------ reference model (plain dicts)


def apply_block(state: dict, muts, ti, oi) -> dict:
    """edit_state as ONE atomic operation: everything written is a function of the state read.

    Never mutates `state` (nor anything nested in it): only top-level keys of a shallow copy are rebound.
    """
    snap = state
    new = dict(state)
    for mi, m in enumerate(muts):
        if m[0] == "incr":
            new[m[1]] = snap.get(m[1], 0) + 1
        elif m[0] == "append":
            new["log"] = list(snap.get("log", [])) + [f"e{ti}.{oi}.{mi}"]
        elif m[0] == "put":
            new[m[1]] = uniq(ti, oi, mi + 1)
    return new


def apply_op(state: dict, op, ti, oi, typed: bool = False) -> dict:
    """One operation applied atomically.  typed: the state always carries all five keys (model defaults)."""
    k = op["k"]
    if k == "set":
        new = dict(state)
        segs = op["path"].split(".")
        if len(segs) == 1:
            new[segs[0]] = set_value(op["path"], ti, oi)
        else:
            inner = dict(new.get(segs[0], {}))
            inner[segs[1]] = set_value(op["path"], ti, oi)
            new[segs[0]] = inner
        return new
    if k == "set_state":
        whole = whole_for(op.get("keys", []), ti, oi)
        return typed_full(whole) if typed else whole
    if k == "set_state_parent":
        # parent-type form: the parent's fields are merged onto the current state, child-only fields are kept
        new = dict(state)
        new.update(parent_for(ti, oi))
        return new
    return apply_block(state, op.get("muts", []), ti, oi)


def serial_results(init: dict, tasks, typed: bool = False) -> set[str]:
    """Final states of every interleaving that respects per-task order (forward DP over the position lattice)."""
    lens = tuple(len(t) for t in tasks)
    start = tuple(0 for _ in tasks)
    layer = {start: {canon(init)}}
    for _ in range(sum(lens)):
        nxt: dict[tuple, set[str]] = {}
        for pos in sorted(layer):
            for s in sorted(layer[pos]):
                state = json.loads(s)
                for ti in range(len(tasks)):
                    if pos[ti] < lens[ti]:
                        oi = pos[ti]
                        npos = pos[:ti] + (oi + 1,) + pos[ti + 1 :]
                        nxt.setdefault(npos, set()).add(canon(apply_op(state, tasks[ti][oi], ti, oi, typed)))
        layer = nxt
    return layer.get(lens, {canon(init)})


class C20(Prop):
    id = "C20"
    rule = (
        "case = 2-4 concurrent tasks, each 1-3 operations on one state store of one run: set(path, v) with path in cnt,log,a,b,n.x,n.y; "
        "set_state(whole new state); edit_state{read early or late; 0-2 suspension points, each 1-4 x asyncio.sleep(0) or a harness gate; "
        "write f(read): increments, appends, puts}; plus a generated schedule (0-3 loop yields before every operation, the order in which the "
        "harness opens the gates and how long it lets the loop run in between) and a generated initial state (row absent / some keys). The state "
        "model is generated too: DictState, or a typed pydantic state with inheritance (store state type C20Child(C20Base): parent fields a, log; "
        "child-only fields b, cnt, n; all with defaults) -- typed cases additionally issue the documented parent-type form "
        "set_state(C20Base(a=.., log=..)), whose serial meaning is 'parent fields replaced, child-only fields kept'. Every "
        "written value names its writer and increments/appends are order-revealing. The same case runs on one InMemoryStateStore object and on "
        "one SqliteStateStore object obtained from SqliteWorkflowStore.create_state_store(run_id) (the server creates and caches exactly one "
        "store object per run, so per-task store objects are not generated). Oracle: the observed final state (read back through get_state) "
        "must equal the final state of at least one serial execution of the same operations that respects each task's own order, every "
        "edit_state block counting as one atomic operation (all interleavings enumerated by a forward DP over task positions). Non-trivial = "
        "on at least one backend, while an edit_state block was suspended between its read and its write, another task invoked "
        "set/set_state/edit_state on the same store (whether that call may complete inside the window is exactly what the store decides). "
        "Class labels parent_set_state_behind_open_block / ..._behind_child_field_writer count the typed cases where a parent-type set_state was "
        "invoked while another task's block (one that writes a child-only field) held the store lock."
    )
    assumptions = [
        "single event loop; InMemoryStateStore and SqliteStateStore are thread-free (the sqlite3 calls run synchronously on the loop, no "
        "to_thread/run_in_executor), so a schedule is a pure function of the case on the FIFO asyncio ready queue",
        "two state models: DictState, and one fixed typed pair C20Child(C20Base) defined in this module (JsonSerializer re-imports it by qualified "
        "name); typed defaults (0, [], {}) equal what the operations assume for an absent DictState key, so both models share one reference "
        "semantics; a parent-type set_state always gives every parent field explicitly, so the oracle does not depend on how unset parent "
        "fields are merged; values are ints, lists of str and one nested dict, all JSON round-trip safe",
        "one store object per run per backend, as _ServerInternalRunAdapter.get_state_store caches it; SQLite store in default (multi-connection) "
        "mode on a per-case temp directory (on /dev/shm when available, only to avoid fsync cost)",
        "only the final state is judged (the property's observe_at); cross-task real-time order is not imposed on the serial witness",
        "operations never raise by construction; an operation that raises or never completes is reported under its own violation kind",
    ]
    budgets = {"quick": 1200, "thorough": 2000}
    wall = {"quick": 50.0, "thorough": 480.0}

    def setup(self):
        boot.seed_llama_agents()
        from llama_agents.server._store.sqlite.sqlite_workflow_store import SqliteWorkflowStore
        from workflows.context.state_store import DictState, InMemoryStateStore

        self.DictState = DictState
        self.Mem = InMemoryStateStore
        self.SqlWS = SqliteWorkflowStore
        shm = "/dev/shm"
        self.tmpbase = shm if os.path.isdir(shm) and os.access(shm, os.W_OK) else None

    # ------------------------------------------------------------------ generator

    def strategy(self, tier):
        pre = st.integers(0, 3)
        sus = st.one_of(
            st.tuples(st.just("y"), st.integers(1, 4)).map(list),
            st.tuples(st.just("g"), st.integers(0, 3)).map(list),
        )
        any_mut = st.one_of(
            st.tuples(st.just("incr"), st.sampled_from(["cnt", "a"])).map(list),
            st.just(["append"]),
            st.tuples(st.just("put"), st.sampled_from(PUT_KEYS)).map(list),
        )
        any_path = st.sampled_from(["cnt", "log", "a", "b", "n.x", "n.y"])
        sched = st.lists(st.tuples(st.integers(0, 3), st.integers(0, 5)).map(list), max_size=6)
        init = st.one_of(st.none(), st.lists(st.sampled_from(STATE_KEYS), unique=True, max_size=4).map(sorted))

        def for_hot(hm):
            hot, model = hm
            # every case has one "hot" key that most writers touch, so that read-modify-write blocks and plain
            # writes really collide (a lost update is only visible on a key both sides use)
            hot_mut = st.just(["append"] if hot == "log" else ["incr", hot])
            mut = st.one_of(hot_mut, hot_mut, hot_mut, any_mut)
            edit = st.fixed_dictionaries(
                {
                    "k": st.just("edit"),
                    "rd": st.sampled_from(["early", "early", "early", "late"]),
                    "sus": st.lists(sus, min_size=0, max_size=2),
                    "muts": st.lists(mut, min_size=1, max_size=3),
                    "pre": pre,
                }
            )
            set_ = st.fixed_dictionaries({"k": st.just("set"), "path": st.one_of(st.just(hot), st.just(hot), any_path), "pre": pre})
            set_state = st.fixed_dictionaries(
                {"k": st.just("set_state"), "keys": st.lists(st.sampled_from(STATE_KEYS), unique=True, max_size=4).map(sorted), "pre": pre}
            )
            if model == "typed":
                # parent-type form of set_state (merge path): only meaningful on a typed store with an inherited state type
                pset = st.fixed_dictionaries({"k": st.just("set_state_parent"), "pre": pre})
                op = st.one_of(edit, edit, edit, set_, set_, set_state, pset, pset)
            else:
                op = st.one_of(edit, edit, edit, set_, set_, set_state)
            tasks = st.lists(st.lists(op, min_size=1, max_size=3), min_size=2, max_size=4)
            return st.fixed_dictionaries({"model": st.just(model), "init": init, "tasks": tasks, "sched": sched})

        # typed cases favour the child-only hot key (a parent-type set_state must keep it)
        dict_cases = st.tuples(st.sampled_from(["cnt", "a", "log"]), st.just("dict"))
        typed_cases = st.tuples(st.sampled_from(["cnt", "cnt", "a", "log"]), st.just("typed"))
        return st.one_of(dict_cases, typed_cases).flatmap(for_hot)

    # ------------------------------------------------------------------ one backend

    def _run_backend(self, backend, case, init, r):
        """Runs the case on one backend; returns (final_state | None, stats)."""
        DictState = self.DictState
        tasks = case["tasks"]
        typed = case.get("model", "dict") == "typed"

        def make_state(values: dict):
            return C20Child(**copy.deepcopy(values)) if typed else DictState(**copy.deepcopy(values))

        def read_all(s) -> dict:
            return copy.deepcopy(s.model_dump() if typed else dict(s.items()))

        def put(s, key, value):
            if typed:
                setattr(s, key, value)
            else:
                s[key] = value

        stats = {
            "contention": False,  # a write op was invoked while another task's block was open
            "intruders": set(),  # op kinds that COMPLETED while another task's block was open
            "two_blocks_open": False,
            "raised": False,
            "pset_behind_block": False,  # parent-type set_state invoked while another task's block was open
            "pset_behind_child_writer": False,  # ... and that block writes a child-only field
        }
        tmp = None
        try:
            if backend == "memory":
                store = self.Mem(C20Child() if typed else DictState())
            else:
                tmp = tempfile.mkdtemp(prefix="c20-", dir=self.tmpbase)
                ws = self.SqlWS(os.path.join(tmp, "wf.db"))
                # as _ServerInternalRunAdapter.get_state_store: create_state_store(run_id, state_type)
                store = ws.create_state_store("run-1", C20Child) if typed else ws.create_state_store("run-1")

            async def main():
                if case["init"] is not None:
                    await store.set_state(make_state(init))
                gates: dict[int, asyncio.Event] = {}
                flags = {"open_all": False}
                open_blocks: set[int] = set()
                open_ops: dict[int, dict] = {}

                def gate(g):
                    ev = gates.get(g)
                    if ev is None:
                        ev = gates[g] = asyncio.Event()
                        if flags["open_all"]:
                            ev.set()
                    return ev

                async def block(ti, oi, op):
                    async with store.edit_state() as s:
                        if open_blocks - {ti}:
                            stats["two_blocks_open"] = True
                        open_blocks.add(ti)
                        open_ops[ti] = op
                        try:
                            snap = None
                            if op.get("rd") != "late":
                                snap = read_all(s)
                            for su in op.get("sus", []):
                                if su[0] == "y":
                                    for _ in range(su[1]):
                                        await asyncio.sleep(0)
                                else:
                                    await gate(su[1]).wait()
                            if snap is None:
                                snap = read_all(s)
                            for mi, m in enumerate(op.get("muts", [])):
                                if m[0] == "incr":
                                    put(s, m[1], snap.get(m[1], 0) + 1)
                                elif m[0] == "append":
                                    put(s, "log", list(snap.get("log", [])) + [f"e{ti}.{oi}.{mi}"])
                                elif m[0] == "put":
                                    put(s, m[1], uniq(ti, oi, mi + 1))
                        finally:
                            open_blocks.discard(ti)
                            open_ops.pop(ti, None)

                async def run_task(ti, ops):
                    for oi, op in enumerate(ops):
                        for _ in range(op.get("pre", 0)):
                            await asyncio.sleep(0)
                        if open_blocks - {ti}:
                            stats["contention"] = True
                        try:
                            if op["k"] == "set":
                                await store.set(op["path"], set_value(op["path"], ti, oi))
                            elif op["k"] == "set_state":
                                await store.set_state(make_state(whole_for(op.get("keys", []), ti, oi)))
                            elif op["k"] == "set_state_parent":
                                others = sorted(open_blocks - {ti})
                                if others:
                                    stats["pset_behind_block"] = True
                                    if any(child_only_writer(open_ops[t]) for t in others):
                                        stats["pset_behind_child_writer"] = True
                                await store.set_state(C20Base(**parent_for(ti, oi)))
                            else:
                                await block(ti, oi, op)
                        except asyncio.CancelledError:
                            raise
                        except Exception as e:  # noqa: BLE001
                            stats["raised"] = True
                            r.v("operation_raised", backend=backend, op=op["k"], err=f"{type(e).__name__}: {e}"[:120])
                            return
                        if open_blocks - {ti}:
                            stats["intruders"].add(op["k"])

                async def driver():
                    for g, settle in case.get("sched", []):
                        for _ in range(settle):
                            await asyncio.sleep(0)
                        gate(g).set()
                    for _ in range(3):
                        await asyncio.sleep(0)
                    flags["open_all"] = True
                    for g in sorted(gates):
                        gates[g].set()

                ts = [asyncio.create_task(run_task(ti, ops)) for ti, ops in enumerate(tasks)]
                ts.append(asyncio.create_task(driver()))
                await asyncio.gather(*ts)
                final = await store.get_state()
                return json.loads(json.dumps(read_all(final)))

            final, quiescent = boot.run_virtual(main)
            if quiescent:
                r.v("operations_never_completed", backend=backend)
                return None, stats
            return final, stats
        finally:
            if tmp:
                shutil.rmtree(tmp, ignore_errors=True)

    # ------------------------------------------------------------------ case

    def run_case(self, case):
        r = CaseResult()
        tasks = case["tasks"]
        typed = case.get("model", "dict") == "typed"
        init = {k: copy.deepcopy(INIT_VALUES[k]) for k in (case["init"] or [])}
        expected = serial_results(typed_full(init) if typed else init, tasks, typed)
        nontrivial = False
        for backend in BACKENDS:
            final, stats = self._run_backend(backend, case, init, r)
            if stats["contention"]:
                nontrivial = True
                r.classes.append(f"contention:{backend}")
            if stats["intruders"]:
                r.classes.append(f"write_completed_inside_open_block:{backend}")
            if stats["pset_behind_block"]:
                r.classes.append(f"parent_set_state_behind_open_block:{backend}")
            if stats["pset_behind_child_writer"]:
                r.classes.append(f"parent_set_state_behind_child_field_writer:{backend}")
            if final is None or stats["raised"]:
                continue
            if canon(final) not in expected:
                r.v(
                    "final_state_not_serializable",
                    backend=backend,
                    model="typed" if typed else "dict",
                    intruders=sorted(stats["intruders"]),
                    two_blocks_open=stats["two_blocks_open"],
                    observed=canon(final)[:300],
                    n_serial_results=len(expected),
                    a_serial_result=sorted(expected)[0][:300],
                )
        r.nontrivial = nontrivial
        r.classes.append(f"tasks_{len(tasks)}")
        r.classes.append("model:typed" if typed else "model:dict")
        if len(expected) > 1:
            r.classes.append("order_revealing(>1 serial result)")
        kinds = {op["k"] for t in tasks for op in t}
        for k in sorted(kinds):
            r.classes.append(f"has_{k}")
        if any(op["k"] == "edit" and any(su[0] == "g" for su in op.get("sus", [])) for t in tasks for op in t):
            r.classes.append("gate_suspension")
        return r


PROP = C20
