import harness_boot as hb
from harness_boot import VC, VLoop, Quiescent
import asyncio, importlib
import llama_agents
hb.seed("llama_agents.server","/repo/packages/llama-agents-server/src/llama_agents/server")
from llama_agents.server.server import WorkflowServer
from llama_agents.server._store.memory_workflow_store import MemoryWorkflowStore
from llama_agents.server._store.abstract_workflow_store import HandlerQuery
import llama_agents.server._runtime.idle_release_runtime as irr, llama_agents.server._store.abstract_workflow_store as aws, llama_agents.server._runtime.server_runtime as srt, llama_agents.server._store.memory_workflow_store as mws
for m in (irr, aws, srt, mws): m.datetime = hb.VDateTime
from workflows import Workflow, step, Context
from workflows.events import StartEvent, StopEvent, Event, HumanResponseEvent, InputRequiredEvent
from workflows.plugins.basic import BasicRuntime
from workflows.retry_policy import retry_policy, wait_fixed, stop_after_attempt

class W(Workflow):
    @step
    async def ask(self, ctx: Context, ev: StartEvent) -> StopEvent:
        r = await ctx.wait_for_event(HumanResponseEvent, waiter_event=InputRequiredEvent(q="?"), waiter_id="w", timeout=None)
        return StopEvent(result="got:"+str(r.get("a")))
n={"k":0}
class R(Workflow):
    @step(retry_policy=retry_policy(wait=wait_fixed(100), stop=stop_after_attempt(3)))
    async def flaky(self, ctx: Context, ev: StartEvent) -> StopEvent:
        n["k"]+=1
        if n["k"]<2: raise ValueError("x")
        return StopEvent(result="ok")

async def main():
    store = MemoryWorkflowStore()
    server = WorkflowServer(workflow_store=store, idle_timeout=30.0, runtime=None)
    # use private BasicRuntime? default uses global basic_runtime
    w = W(timeout=None); r = R(timeout=None)
    server.add_workflow("w", w); server.add_workflow("r", r)
    await server.start()
    svc = server._service
    hd = await svc.start_workflow(w, "h1", start_event=StartEvent())
    hr = await svc.start_workflow(r, "h2", start_event=StartEvent())
    async def show(tag):
        hs = await store.query(HandlerQuery(handler_id_in=["h1","h2"]))
        print(tag, "t=",VC.t, [(h.handler_id,h.status,h.idle_since is not None, str(h.result)) for h in hs], "active", server._runtime._decorated._active_run_ids)
    await asyncio.sleep(1); await show("after1s")
    await asyncio.sleep(50); await show("after51s")
    await svc.send_event("h1", HumanResponseEvent(a=42))
    await asyncio.sleep(5); await show("after send")
    await asyncio.sleep(500); await show("after 556")
    await server.stop()
loop = VLoop(); asyncio.set_event_loop(loop)
import time; t0=time.perf_counter()
try:
    loop.run_until_complete(main())
except Quiescent: print("QUIESCENT")
print("real", round(time.perf_counter()-t0,2))
