import harness_boot as hb
from harness_boot import VC, VLoop, Quiescent
import asyncio, logging, copy
logging.disable(logging.CRITICAL)
import llama_agents
hb.seed("llama_agents.server","/repo/packages/llama-agents-server/src/llama_agents/server")
from llama_agents.server.server import WorkflowServer
from llama_agents.server._store.memory_workflow_store import MemoryWorkflowStore
from llama_agents.server._store.abstract_workflow_store import HandlerQuery
from workflows import Workflow, step, Context
from workflows.events import StartEvent, StopEvent, Event
from workflows.plugins.basic import BasicRuntime
import workflows.plugins.basic as basic

class A(Event): pass
class B(Event): pass
def mk():
    class W(Workflow):
        @step
        async def s1(self, ctx: Context, ev: StartEvent) -> A:
            await asyncio.sleep(1); return A(v=1)
        @step
        async def s2(self, ctx: Context, ev: A) -> B:
            await asyncio.sleep(1); return B(v=ev.v+1)
        @step
        async def s3(self, ctx: Context, ev: B) -> StopEvent:
            await asyncio.sleep(1); return StopEvent(result=ev.v+1)
    return W(timeout=None)

async def full():
    store = MemoryWorkflowStore()
    server = WorkflowServer(workflow_store=store, idle_timeout=1000.0, runtime=None)
    w = mk(); server.add_workflow("w", w); await server.start()
    hd = await server._service.start_workflow(w, "h1", start_event=StartEvent())
    await asyncio.sleep(10)
    h = (await store.query(HandlerQuery(handler_id_in=["h1"])))[0]
    ticks = await store.get_ticks(h.run_id)
    await server.stop()
    return h, ticks
async def resume(h, ticks, k):
    store = MemoryWorkflowStore()
    hh = h.model_copy(update={"status":"running","result":None,"completed_at":None})
    await store.update(hh)
    for t in ticks[:k]: await store.append_tick(h.run_id, t.tick_data)
    basic.basic_runtime = BasicRuntime()
    import llama_agents.server.server as srv; srv.basic_runtime = basic.basic_runtime
    server = WorkflowServer(workflow_store=store, idle_timeout=1000.0, runtime=None)
    w = mk(); server.add_workflow("w", w); await server.start()
    await asyncio.sleep(50)
    r = (await store.query(HandlerQuery(handler_id_in=["h1"])))[0]
    await server.stop()
    return r.status, str(r.result), r.idle_since is not None
async def main():
    h, ticks = await full()
    print("full:", h.status, h.result, "ticks:", [t.tick_data["type"] for t in ticks])
    for k in range(len(ticks)+1):
        print(k, ticks[k-1].tick_data["type"] if k else "-", await resume(h, ticks, k))
loop=VLoop(); asyncio.set_event_loop(loop)
try: loop.run_until_complete(main())
except Quiescent: print("QUIESCENT")
