import harness_boot as hb
from harness_boot import VC, VLoop, Quiescent
import asyncio, logging
logging.disable(logging.CRITICAL)
from workflows import Workflow, step, Context
from workflows.events import StartEvent, StopEvent, Event, HumanResponseEvent, InputRequiredEvent
from workflows.context.state_store import InMemoryStateStore, DictState
from workflows.retry_policy import retry_policy, wait_fixed, stop_after_attempt, stop_after_delay, wait_chain

log=[]
class Out(Event): pass
class Fin(HumanResponseEvent): pass
class W(Workflow):
    @step
    async def ask(self, ctx: Context, ev: StartEvent) -> Out:
        r = await ctx.wait_for_event(HumanResponseEvent, waiter_id="w", timeout=None)
        await asyncio.sleep(5)
        log.append(("ask-completed", r.get("a")))
        return Out(a=r.get("a"))
    @step
    async def out(self, ev: Out) -> StopEvent | None:
        log.append(("out", ev.a)); return None
    @step
    async def fin(self, ev: Fin) -> StopEvent:
        return StopEvent(result="done")

async def c10():
    h = W(timeout=None).run()
    await asyncio.sleep(1)
    h.ctx.send_event(HumanResponseEvent(a=1))
    await asyncio.sleep(1)
    h.ctx.send_event(HumanResponseEvent(a=2))   # duplicate while replayed step still running
    await asyncio.sleep(20)
    h.ctx.send_event(Fin())
    print("C10 result", await h, log)

n={"k":0}; times=[]
class R(Workflow):
    @step(retry_policy=retry_policy(wait=wait_chain(wait_fixed(1), wait_fixed(10), wait_fixed(100)), stop=stop_after_attempt(4)))
    async def flaky(self, ctx: Context, ev: StartEvent) -> StopEvent:
        times.append((VC.t, ctx.retry_info().retry_number, round(ctx.retry_info().elapsed_seconds,2)))
        raise ValueError("x")
class D(Workflow):
    @step(retry_policy=retry_policy(wait=wait_fixed(1), stop=stop_after_delay(50)))
    async def flaky(self, ctx: Context, ev: StartEvent) -> StopEvent:
        times.append((VC.t, ctx.retry_info().retry_number))
        raise ValueError("x")
async def c06():
    t0=VC.t
    h=R(timeout=None).run()
    evs=[]
    try:
        async for e in h.stream_events(): evs.append(e)
        await h
    except Exception as e: print("C06 exc", type(e).__name__)
    print("C06 times", [(round(t-t0,2),n,el) for t,n,el in times], "failed ev:", [(e.attempts, e.elapsed_seconds) for e in evs if type(e).__name__=="WorkflowFailedEvent"])
    times.clear(); t0=VC.t
    h=D(timeout=None).run()
    try: await h
    except Exception as e: pass
    print("C05 stop_after_delay(50) executions:", len(times))
async def c19():
    s=InMemoryStateStore(DictState())
    await s.set("a",1)
    st=await s.get_state(); st["a"]=99; st["b"]=5
    print("C19 after mutating copy:", await s.get("a"), await s.get("b", None))
async def main():
    await c10(); await c06(); await c19()
loop=VLoop(); asyncio.set_event_loop(loop)
try: loop.run_until_complete(main())
except Quiescent: print("QUIESCENT", log)
