import asyncio, typing
from workflows import Workflow, step, Context
from workflows.decorators import make_step_function
from workflows.events import StartEvent, StopEvent, Event
from workflows.plugins.basic import BasicRuntime, InternalAsyncioAdapter
from workflows.runtime.types.plugin import WaitForNextTaskResult
from workflows.runtime.types.named_task import all_tasks, pick_highest_priority
from workflows.retry_policy import retry_policy, wait_fixed, stop_after_attempt

class E1(Event): pass
class E2(Event): pass

class Sim:
    def __init__(self): self.now=1000.0; self.gates={}; self.log=[]
SIM=Sim()

class SimAdapter(InternalAsyncioAdapter):
    async def get_now(self): return SIM.now
    async def wait_for_next_task(self, running, pending, timeout=None):
        started=[p.start(asyncio.create_task(p.coro)) for p in pending]
        named=running+started
        for _ in range(50): await asyncio.sleep(0)
        done={nt.task for nt in named if nt.task.done()}
        if not done:
            # release a gate (LIFO to be different from FIFO)
            if SIM.gates:
                k=sorted(SIM.gates)[-1]; SIM.gates.pop(k).set_result(None)
                for _ in range(50): await asyncio.sleep(0)
                done={nt.task for nt in named if nt.task.done()}
            elif timeout is not None:
                SIM.now+=timeout; SIM.log.append(("advance",timeout)); return WaitForNextTaskResult(None, started)
        if not done:
            return WaitForNextTaskResult(None, started)
        return WaitForNextTaskResult(pick_highest_priority(named, done), started)

class SimRuntime(BasicRuntime):
    def get_internal_adapter(self, workflow):
        a=super().get_internal_adapter(workflow); return SimAdapter(a._queues)

cnt={"n":0}
def mk(name, accepts, returns, body, **kw):
    async def fn(self, ctx, ev): return await body(self, ctx, ev)
    fn.__name__=name; fn.__qualname__=f"GenWf.{name}"
    fn.__annotations__={"ctx":Context,"ev":accepts,"return":returns}
    return step(**kw)(fn)

async def b0(self, ctx, ev):
    for i in range(3): ctx.send_event(E1(i=i))
    return None
async def b1(self, ctx, ev):
    f=asyncio.get_running_loop().create_future(); cnt["n"]+=1; SIM.gates[(ev.i,cnt["n"])]=f; await f
    SIM.log.append(("run",ev.i, ctx.retry_info().retry_number))
    if ev.i==1 and ctx.retry_info().retry_number<2: raise ValueError("boom")
    return E2(i=ev.i)
async def b2(self, ctx, ev):
    got=ctx.collect_events(ev,[E2,E2,E2])
    if got is None: return None
    return StopEvent(result=[e.i for e in got])
GenWf=type("GenWf",(Workflow,),{
 "s0":mk("s0",StartEvent,typing.Optional[E1],b0),
 "s1":mk("s1",E1,E2,b1,num_workers=2,retry_policy=retry_policy(wait=wait_fixed(5),stop=stop_after_attempt(3))),
 "s2":mk("s2",E2,typing.Optional[StopEvent],b2),
})
async def main():
    wf=GenWf(runtime=SimRuntime(), timeout=100)
    h=wf.run()
    evs=[]
    async for e in h.stream_events(expose_internal=True): evs.append(type(e).__name__)
    print(await h, SIM.log, SIM.now)
    print(len(evs))
asyncio.run(main())
