import harness_boot as hb
from harness_boot import VC, VLoop
import asyncio, logging, typing, json, dataclasses
logging.disable(logging.CRITICAL)
from workflows import Workflow, step, Context
from workflows.events import StartEvent, StopEvent, Event, HumanResponseEvent
from workflows.retry_policy import retry_policy, wait_fixed, stop_after_attempt
import workflows.runtime.control_loop as cl
from workflows.runtime.control_loop import rebuild_state_from_ticks
from workflows.runtime.types.ticks import WorkflowTickAdapter

class E1(Event): pass
class E2(Event): pass
def norm(state):
    out={"is_running":state.is_running,"workers":{}}
    for n,w in state.workers.items():
        out["workers"][n]={
          "queue":[(type(a.event).__name__, a.event.get("i"), a.attempts or 0, dict(a.recovery_counts), type(a.last_exception).__name__) for a in w.queue],
          "inprog":sorted([(ip.worker_id, type(ip.event).__name__, ip.event.get("i"), ip.attempts, {k:[e.get("i") for e in v] for k,v in ip.shared_state.collected_events.items()}) for ip in w.in_progress], key=lambda x:x[0]),
          "collected":{k:[e.get("i") for e in v] for k,v in w.collected_events.items()},
          "waiters":[(x.waiter_id, x.resolved_event is not None, x.timed_out) for x in w.collected_waiters],
        }
    return out
PROBE={"mismatch":[], "ticks":0, "idle_with_timer":0}
orig=cl._ControlLoopRunner._process_tick
async def wrapped(self, tick):
    res = await orig(self, tick)
    PROBE["ticks"]+=1
    ticks=list(self.adapter.replay()) if hasattr(self.adapter,"replay") else None
    if ticks is not None:
        # json round trip of ticks
        ticks2=[WorkflowTickAdapter.validate_python(json.loads(json.dumps(WorkflowTickAdapter.dump_python(t,mode="json")))) for t in ticks]
        live=norm(self.state); rep=norm(rebuild_state_from_ticks(self.adapter.init_state, ticks)); rep2=norm(rebuild_state_from_ticks(self.adapter.init_state, ticks2))
        if live!=rep or live!=rep2: PROBE["mismatch"].append((PROBE["ticks"], type(tick).__name__, live, rep, rep2))
    return res
cl._ControlLoopRunner._process_tick = wrapped

cnt={"n":0}
class W(Workflow):
    @step
    async def s0(self, ctx: Context, ev: StartEvent) -> E1 | None:
        for i in range(4): ctx.send_event(E1(i=i))
        return None
    @step(num_workers=2, retry_policy=retry_policy(wait=wait_fixed(5), stop=stop_after_attempt(3)))
    async def s1(self, ctx: Context, ev: E1) -> E2:
        await asyncio.sleep([3,1,2,1][ev.i])
        if ev.i==1 and ctx.retry_info().retry_number<2: raise ValueError("boom")
        return E2(i=ev.i)
    @step(num_workers=2)
    async def s2(self, ctx: Context, ev: E2) -> StopEvent | None:
        await asyncio.sleep(0.5)
        got=ctx.collect_events(ev,[E2,E2,E2,E2])
        if got is None: return None
        return StopEvent(result=sorted(e.i for e in got))
async def main():
    wf=W(timeout=1000)
    h=wf.run()
    snaps=[]
    async def snapper():
        for t in [0.5, 2.5, 4, 8, 14]:
            await asyncio.sleep(t - (VC.t)) if t>VC.t else None
            d=h.ctx.to_dict(); snaps.append((VC.t, json.loads(json.dumps(d))))
    st=asyncio.create_task(snapper())
    r=await h; await st
    print("result", r, "ticks", PROBE["ticks"], "mismatches", len(PROBE["mismatch"]))
    for m in PROBE["mismatch"][:2]: print(m)
    # resume from each snapshot on fresh instance
    for t,d in snaps:
        wf2=W(timeout=1000)
        ctx2=Context.from_dict(wf2, d)
        try:
            r2=await asyncio.wait_for(wf2.run(ctx=ctx2), timeout=500)
        except Exception as e: r2=f"EXC {type(e).__name__}"
        summ={k:(len(v["queue"]),len(v["in_progress"]),{b:len(x) for b,x in v["collected_events"].items()}) for k,v in d["workers"].items()}
        print("snapshot@",t, summ, "-> resumed result", r2)
loop=VLoop(); asyncio.set_event_loop(loop); loop.run_until_complete(main())
