import harness_boot as hb
from harness_boot import VC, VLoop, Quiescent
import asyncio, sys, llama_agents
hb.seed("llama_agents.core","/repo/packages/llama-agents-core/src/llama_agents/core")
from llama_agents.core.iter_utils import debounced_sorted_prefix, merge_generators
async def src(items):
    for d,x in items:
        await asyncio.sleep(d); yield x
async def run(items, deb, mx):
    out=[]
    async for x in debounced_sorted_prefix(src(items), key=lambda v:v, debounce_seconds=deb, max_window_seconds=mx): out.append(x)
    return out
async def main():
    bad=0; tot=0
    import itertools
    for gaps in itertools.product([0,0.05,0.1,0.15,0.2], repeat=3):
        for vals in itertools.permutations([3,1,2]):
            items=list(zip(gaps,vals)); tot+=1
            out=await run(items,0.1,0.3)
            if sorted(out)!=sorted(vals):
                bad+=1; print("LOST/DUP", items, out)
            # burst = prefix that is sorted; later items arrival order. check: exists split such that out[:k]==sorted(out[:k]) and out[k:] follows arrival order and every burst item arrived before later ones
            arr=[v for _,v in items]
            ok=any(out[:k]==sorted(arr[:k]) and out[k:]==arr[k:] for k in range(len(arr)+1))
            if not ok:
                bad+=1
                if bad<6: print("ORDER", items, out)
    print("total",tot,"bad",bad)
loop=VLoop(); asyncio.set_event_loop(loop); loop.run_until_complete(main())
