import sys, types, time as _time, asyncio, datetime as _dt
# ---- virtual clock
class VClock:
    t = 0.0
VC = VClock
_time.time = lambda: 1_700_000_000.0 + VC.t
_time.monotonic = lambda: 5_000.0 + VC.t
class VDateTime(_dt.datetime):
    @classmethod
    def now(cls, tz=None):
        return cls.fromtimestamp(_time.time(), tz=tz)
class Quiescent(Exception): pass
class VLoop(asyncio.SelectorEventLoop):
    def __init__(self):
        super().__init__()
        sel = self._selector; orig = sel.select
        def select(timeout=None):
            ev = orig(0)
            if ev: return ev
            if timeout is None:
                raise Quiescent()
            if timeout > 0: VC.t += timeout
            return ev
        sel.select = select
    def time(self): return 5_000.0 + VC.t
# ---- permissive stubs
class _Any:
    def __init__(self,*a,**k): self.a=a; self.k=k
    def __call__(self,*a,**k): return _Any()
    def __getattr__(self,n): return _Any()
def stub(name, **attrs):
    m = types.ModuleType(name); m.__path__=[]
    for k,v in attrs.items(): setattr(m,k,v)
    m.__getattr__ = lambda n: type(n,(_Any,),{})
    sys.modules[name]=m
    parent,_,child=name.rpartition(".")
    if parent and parent in sys.modules: setattr(sys.modules[parent],child,m)
    return m
class HTTPException(Exception):
    def __init__(self, status_code=500, detail=None): self.status_code=status_code; self.detail=detail
class StreamingResponse:
    def __init__(self, content, media_type=None, **k): self.body_iterator=content; self.media_type=media_type; self.status_code=200
class JSONResponse:
    def __init__(self, content=None, status_code=200, **k): self.content=content; self.status_code=status_code
class Request:
    def __init__(self, path_params=None, query_params=None, headers=None):
        self.path_params=path_params or {}; self.query_params=query_params or {}; self.headers={k.lower():v for k,v in (headers or {}).items()}
for n in ["starlette","starlette.applications","starlette.middleware","starlette.middleware.cors","starlette.routing","starlette.schemas","starlette.staticfiles","uvicorn"]:
    stub(n)
stub("starlette.exceptions", HTTPException=HTTPException)
stub("starlette.requests", Request=Request)
stub("starlette.responses", JSONResponse=JSONResponse, StreamingResponse=StreamingResponse)
def seed(name, path):
    m = types.ModuleType(name); m.__path__=[path]; m.__package__=name
    sys.modules[name]=m
    parent, _, child = name.rpartition(".")
    if parent: setattr(sys.modules[parent], child, m)
