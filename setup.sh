#!/bin/sh
# Offline setup: make sure hypothesis is importable in /venv; nothing is compiled.
set -e
cd "$(dirname "$0")"
if ! /venv/bin/python -c "import hypothesis" 2>/dev/null; then
  /venv/bin/pip install --no-index --find-links /opt/veriftools/wheels hypothesis >/dev/null
fi
/venv/bin/python -c "import hypothesis, pydantic; print('setup ok: hypothesis', hypothesis.__version__)"
mkdir -p evidence replays
