"""cryptography.exceptions (subset)."""


class AlreadyFinalized(Exception):
    pass


class InvalidKey(Exception):
    pass


class InvalidTag(Exception):
    pass


class UnsupportedAlgorithm(Exception):
    pass
