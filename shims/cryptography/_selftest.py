"""Known-answer tests for the shim (run from the check's setup(); failure = harness error)."""

from __future__ import annotations

from .exceptions import AlreadyFinalized, InvalidTag
from .hazmat.primitives import hashes
from .hazmat.primitives.ciphers.aead import AESGCM
from .hazmat.primitives.kdf.pbkdf2 import PBKDF2HMAC

H = bytes.fromhex

# AES-256-GCM known answers: test cases 13, 14, 15 and 16 of McGrew & Viega, "The Galois/Counter Mode
# of Operation (GCM)" (the specification submitted to NIST; the same vectors appear in NIST's GCM
# validation material): (key, iv, plaintext, aad, ciphertext, tag)
_K0 = "00" * 32
_K1 = "feffe9928665731c6d6a8f9467308308" * 2
_P = (
    "d9313225f88406e5a55909c5aff5269a86a7a9531534f7da2e4c303d8a318a72"
    "1c3c0c95956809532fcf0e2449a6b525b16aedf5aa0de657ba637b391aafd255"
)
GCM = [
    (_K0, "00" * 12, "", "", "", "530f8afbc74536b9a963b4f1c4cb738b"),
    (_K0, "00" * 12, "00" * 16, "", "cea7403d4d606b6e074ec5d3baf39d18", "d0d1c8a799996bf0265b98b5d48ab919"),
    (
        _K1,
        "cafebabefacedbaddecaf888",
        _P,
        "",
        "522dc1f099567d07f47f37a32a84427d643a8cdcbfe5c0c97598a2bd2555d1aa"
        "8cb08e48590dbb3da7b08b1056828838c5f61e6393ba7a0abcc9f662898015ad",
        "b094dac5d93471bdec1a502270e3cc6c",
    ),
    (
        _K1,
        "cafebabefacedbaddecaf888",
        _P[:120],
        "feedfacedeadbeeffeedfacedeadbeefabaddad2",
        "522dc1f099567d07f47f37a32a84427d643a8cdcbfe5c0c97598a2bd2555d1aa"
        "8cb08e48590dbb3da7b08b1056828838c5f61e6393ba7a0abcc9f662",
        "76fc6ece0f4e1768cddf8853bb2d551b",
    ),
]

# PBKDF2-HMAC-SHA256 known answers (password, salt, iterations, dkLen, key) — widely published
# companions of RFC 6070 for SHA-256 (also in RFC 7914 section 11 for the 64-byte form).
PBKDF2 = [
    (b"password", b"salt", 1, 32, "120fb6cffcf8b32c43e7225256c4f837a86548c92ccc35480805987cb70be17b"),
    (b"password", b"salt", 2, 32, "ae4d0c95af6b46d32d0adff928f06dd02a303f8ef3c251dfd6e2d85a95474c43"),
    (b"password", b"salt", 4096, 32, "c5e478d59288c841aa530db6845c4c8d962893a001ce4e11a4963873aa98134a"),
    (
        b"passwd",
        b"salt",
        1,
        64,
        "55ac046e56e3089fec1691c22544b605f94185216dde0465e68b9d57c20dacbc"
        "49ca9cccf179b645991664b39d77ef317c71b845b1e30bd509112041d3a19783",
    ),
]


class SelfTestError(Exception):
    pass


def run() -> None:
    for i, (k, iv, p, a, c, t) in enumerate(GCM):
        g = AESGCM(H(k))
        aad = H(a) if a else None
        got = g.encrypt(H(iv), H(p), aad)
        if got != H(c) + H(t):
            raise SelfTestError(f"AES-GCM vector {i}: encrypt mismatch {got.hex()}")
        if g.decrypt(H(iv), H(c) + H(t), aad) != H(p):
            raise SelfTestError(f"AES-GCM vector {i}: decrypt mismatch")
        for bad in (
            H(c) + bytes([H(t)[0] ^ 1]) + H(t)[1:],  # flipped tag bit
            (bytes([H(c)[0] ^ 0x80]) + H(c)[1:] + H(t)) if c else None,  # flipped ciphertext bit
            (H(c) + H(t))[:-1],  # truncated
        ):
            if bad is None:
                continue
            try:
                g.decrypt(H(iv), bad, aad)
            except InvalidTag:
                pass
            else:
                raise SelfTestError(f"AES-GCM vector {i}: tampered input accepted")
        try:
            AESGCM(bytes([H(k)[0] ^ 1]) + H(k)[1:]).decrypt(H(iv), H(c) + H(t), aad)
        except InvalidTag:
            pass
        else:
            raise SelfTestError(f"AES-GCM vector {i}: wrong key accepted")
    for i, (pw, salt, it, n, want) in enumerate(PBKDF2):
        kdf = PBKDF2HMAC(algorithm=hashes.SHA256(), length=n, salt=salt, iterations=it)
        got = kdf.derive(pw)
        if got != H(want):
            raise SelfTestError(f"PBKDF2 vector {i}: mismatch {got.hex()}")
        try:
            kdf.derive(pw)
        except AlreadyFinalized:
            pass
        else:
            raise SelfTestError("PBKDF2HMAC allowed a second derive()")
