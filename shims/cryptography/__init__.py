"""Functional stand-in for the parts of `cryptography` that
llama_agents.control_plane.backup.encryption imports (the real wheel is not installable offline).

PBKDF2HMAC -> hashlib.pbkdf2_hmac (OpenSSL), AESGCM -> ctypes binding of libcrypto.so.3
EVP_aes_{128,192,256}_gcm.  Real AES-GCM / PBKDF2, different binding.  `selftest()` checks both
against published vectors and must be called by every check that relies on this shim.
"""

__version__ = "0+verif.shim"


def selftest() -> None:
    from ._selftest import run

    run()
