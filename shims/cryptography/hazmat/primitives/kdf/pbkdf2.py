"""cryptography.hazmat.primitives.kdf.pbkdf2.PBKDF2HMAC on top of hashlib.pbkdf2_hmac."""

from __future__ import annotations

import hashlib
import hmac
from typing import Any

from ....exceptions import AlreadyFinalized, InvalidKey, UnsupportedAlgorithm
from ..hashes import HashAlgorithm


def _bytes(name: str, value: Any) -> bytes:
    if not isinstance(value, (bytes, bytearray, memoryview)):
        raise TypeError(f"{name} must be bytes-like")
    return bytes(value)


class PBKDF2HMAC:
    def __init__(self, algorithm: HashAlgorithm, length: int, salt: bytes, iterations: int, backend: Any = None) -> None:
        if not isinstance(algorithm, HashAlgorithm):
            raise TypeError("algorithm must be a HashAlgorithm instance")
        if algorithm.name not in hashlib.algorithms_available:
            raise UnsupportedAlgorithm(f"{algorithm.name} is not supported for PBKDF2")
        if not isinstance(length, int) or length <= 0:
            raise ValueError("length must be a positive integer")
        if not isinstance(iterations, int) or iterations < 1:
            raise ValueError("iterations must be a positive integer")
        self._algorithm = algorithm
        self._length = length
        self._salt = _bytes("salt", salt)
        self._iterations = iterations
        self._used = False

    def derive(self, key_material: bytes) -> bytes:
        if self._used:
            raise AlreadyFinalized("PBKDF2 instances can only be used once.")
        self._used = True
        return hashlib.pbkdf2_hmac(self._algorithm.name, _bytes("key_material", key_material), self._salt, self._iterations, self._length)

    def verify(self, key_material: bytes, expected_key: bytes) -> None:
        derived = self.derive(key_material)
        if not hmac.compare_digest(derived, _bytes("expected_key", expected_key)):
            raise InvalidKey("Keys do not match.")
