"""cryptography.hazmat.primitives.hashes (subset: algorithm descriptors only)."""


class HashAlgorithm:
    name: str = ""
    digest_size: int = 0
    block_size: int | None = None


class SHA1(HashAlgorithm):
    name = "sha1"
    digest_size = 20
    block_size = 64


class SHA224(HashAlgorithm):
    name = "sha224"
    digest_size = 28
    block_size = 64


class SHA256(HashAlgorithm):
    name = "sha256"
    digest_size = 32
    block_size = 64


class SHA384(HashAlgorithm):
    name = "sha384"
    digest_size = 48
    block_size = 128


class SHA512(HashAlgorithm):
    name = "sha512"
    digest_size = 64
    block_size = 128
