"""Import-only stand-in (see cryptography/__init__.py)."""


class RSAPublicKey:  # used only as a type / isinstance target by llamactl's auth client
    pass
