"""Import-only stand-in (see cryptography/__init__.py)."""
