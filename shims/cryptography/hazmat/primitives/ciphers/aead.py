"""cryptography.hazmat.primitives.ciphers.aead.AESGCM through ctypes -> OpenSSL libcrypto EVP."""

from __future__ import annotations

import ctypes
import ctypes.util
import os
from typing import Any

from ....exceptions import InvalidTag

_TAG = 16
_EVP_CTRL_GCM_SET_IVLEN = 0x9
_EVP_CTRL_GCM_GET_TAG = 0x10
_EVP_CTRL_GCM_SET_TAG = 0x11

_lib = None


def _load():
    global _lib
    if _lib is not None:
        return _lib
    last: Exception | None = None
    for cand in ("libcrypto.so.3", ctypes.util.find_library("crypto")):
        if not cand:
            continue
        try:
            lib = ctypes.CDLL(cand)
            lib.EVP_aes_256_gcm  # noqa: B018  (AttributeError if absent)
            break
        except (OSError, AttributeError) as e:  # pragma: no cover
            last = e
    else:
        raise ImportError(f"cryptography shim: no usable libcrypto ({last!r})")
    vp, ci, cp = ctypes.c_void_p, ctypes.c_int, ctypes.c_char_p
    pi = ctypes.POINTER(ctypes.c_int)
    for nm in ("EVP_aes_128_gcm", "EVP_aes_192_gcm", "EVP_aes_256_gcm"):
        f = getattr(lib, nm)
        f.restype, f.argtypes = vp, []
    lib.EVP_CIPHER_CTX_new.restype, lib.EVP_CIPHER_CTX_new.argtypes = vp, []
    lib.EVP_CIPHER_CTX_free.restype, lib.EVP_CIPHER_CTX_free.argtypes = None, [vp]
    lib.EVP_CIPHER_CTX_ctrl.restype, lib.EVP_CIPHER_CTX_ctrl.argtypes = ci, [vp, ci, ci, vp]
    for nm in ("EVP_EncryptInit_ex", "EVP_DecryptInit_ex"):
        f = getattr(lib, nm)
        f.restype, f.argtypes = ci, [vp, vp, vp, cp, cp]
    for nm in ("EVP_EncryptUpdate", "EVP_DecryptUpdate"):
        f = getattr(lib, nm)
        f.restype, f.argtypes = ci, [vp, vp, pi, cp, ci]
    for nm in ("EVP_EncryptFinal_ex", "EVP_DecryptFinal_ex"):
        f = getattr(lib, nm)
        f.restype, f.argtypes = ci, [vp, vp, pi]
    _lib = lib
    return lib


def _b(name: str, v: Any) -> bytes:
    if not isinstance(v, (bytes, bytearray, memoryview)):
        raise TypeError(f"{name} must be bytes-like")
    return bytes(v)


class AESGCM:
    _MAX_SIZE = 2**31 - 1

    def __init__(self, key: bytes) -> None:
        key = _b("key", key)
        if len(key) not in (16, 24, 32):
            raise ValueError("AESGCM key must be 128, 192, or 256 bits.")
        self._key = key
        _load()

    @classmethod
    def generate_key(cls, bit_length: int) -> bytes:
        if bit_length not in (128, 192, 256):
            raise ValueError("bit_length must be 128, 192, or 256")
        return os.urandom(bit_length // 8)

    def _cipher(self, lib):
        return {16: lib.EVP_aes_128_gcm, 24: lib.EVP_aes_192_gcm, 32: lib.EVP_aes_256_gcm}[len(self._key)]()

    @staticmethod
    def _check(nonce: bytes, data: bytes, aad: bytes) -> None:
        if len(nonce) < 8 or len(nonce) > 128:
            raise ValueError("Nonce must be between 8 and 128 bytes")
        if len(data) > AESGCM._MAX_SIZE or len(aad) > AESGCM._MAX_SIZE:
            raise OverflowError("Data or associated data too long. Max 2**31 - 1 bytes")

    def _run(self, enc: bool, nonce: bytes, data: bytes, aad: bytes, tag: bytes | None) -> tuple[bytes, bytes]:
        lib = _load()
        init = lib.EVP_EncryptInit_ex if enc else lib.EVP_DecryptInit_ex
        update = lib.EVP_EncryptUpdate if enc else lib.EVP_DecryptUpdate
        final = lib.EVP_EncryptFinal_ex if enc else lib.EVP_DecryptFinal_ex
        ctx = lib.EVP_CIPHER_CTX_new()
        if not ctx:
            raise MemoryError("EVP_CIPHER_CTX_new failed")
        try:
            if init(ctx, self._cipher(lib), None, None, None) != 1:
                raise RuntimeError("EVP init (cipher) failed")
            if lib.EVP_CIPHER_CTX_ctrl(ctx, _EVP_CTRL_GCM_SET_IVLEN, len(nonce), None) != 1:
                raise RuntimeError("EVP set ivlen failed")
            if init(ctx, None, None, self._key, nonce) != 1:
                raise RuntimeError("EVP init (key/iv) failed")
            outl = ctypes.c_int(0)
            if aad:
                if update(ctx, None, ctypes.byref(outl), aad, len(aad)) != 1:
                    raise RuntimeError("EVP update (aad) failed")
            out = ctypes.create_string_buffer(len(data) + 32)
            n = 0
            if data:
                if update(ctx, out, ctypes.byref(outl), data, len(data)) != 1:
                    raise RuntimeError("EVP update (data) failed")
                n = outl.value
            if not enc:
                assert tag is not None
                tbuf = ctypes.create_string_buffer(tag, len(tag))
                if lib.EVP_CIPHER_CTX_ctrl(ctx, _EVP_CTRL_GCM_SET_TAG, len(tag), tbuf) != 1:
                    raise RuntimeError("EVP set tag failed")
            tail = ctypes.create_string_buffer(32)
            rc = final(ctx, tail, ctypes.byref(outl))
            if rc != 1:
                if enc:
                    raise RuntimeError("EVP final failed")
                raise InvalidTag()
            res = out.raw[:n] + tail.raw[: outl.value]
            otag = b""
            if enc:
                tbuf = ctypes.create_string_buffer(_TAG)
                if lib.EVP_CIPHER_CTX_ctrl(ctx, _EVP_CTRL_GCM_GET_TAG, _TAG, tbuf) != 1:
                    raise RuntimeError("EVP get tag failed")
                otag = tbuf.raw
            return res, otag
        finally:
            lib.EVP_CIPHER_CTX_free(ctx)

    def encrypt(self, nonce: bytes, data: bytes, associated_data: bytes | None) -> bytes:
        nonce, data = _b("nonce", nonce), _b("data", data)
        aad = b"" if associated_data is None else _b("associated_data", associated_data)
        self._check(nonce, data, aad)
        ct, tag = self._run(True, nonce, data, aad, None)
        return ct + tag

    def decrypt(self, nonce: bytes, data: bytes, associated_data: bytes | None) -> bytes:
        nonce, data = _b("nonce", nonce), _b("data", data)
        aad = b"" if associated_data is None else _b("associated_data", associated_data)
        self._check(nonce, data, aad)
        if len(data) < _TAG:
            raise InvalidTag()
        pt, _ = self._run(False, nonce, data[:-_TAG], aad, data[-_TAG:])
        return pt
