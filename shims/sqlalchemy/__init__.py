"""Import-only stand-in for SQLAlchemy (not installable offline).  Only the two names that
`llama_agents.dbos.runtime` imports for type annotations exist (`sqlalchemy.engine.URL`, `Engine`); nothing is functional."""
