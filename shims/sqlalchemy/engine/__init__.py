"""Import-only stand-in: `URL` and `Engine` are annotation-only dummies."""


class URL:  # pragma: no cover - annotation only
    database = None
    drivername = "sqlite"

    def set(self, **kw):
        raise RuntimeError("sqlalchemy is a stand-in: no database engine is available in this sandbox")

    def render_as_string(self, hide_password: bool = True) -> str:
        raise RuntimeError("sqlalchemy is a stand-in: no database engine is available in this sandbox")


class Engine:  # pragma: no cover - annotation only
    url = None
    dialect = None
