"""Import-only stand-in for `uvicorn` (absent from /venv).  Nothing is ever served."""

from __future__ import annotations

from typing import Any

__version__ = "0.0.verif-shim"


class Config:
    def __init__(self, app: Any = None, host: str = "127.0.0.1", port: int = 8000, **kwargs: Any) -> None:
        self.app = app
        self.host = host
        self.port = port
        self.kwargs = kwargs
        for k, v in kwargs.items():
            setattr(self, k, v)


class Server:
    def __init__(self, config: Config) -> None:
        self.config = config
        self.should_exit = False
        self.started = False

    async def serve(self, sockets: Any = None) -> None:
        raise NotImplementedError("uvicorn shim: no network server in this sandbox")

    def run(self, sockets: Any = None) -> None:
        raise NotImplementedError("uvicorn shim: no network server in this sandbox")


def run(app: Any, **kwargs: Any) -> None:
    raise NotImplementedError("uvicorn shim: no network server in this sandbox")
