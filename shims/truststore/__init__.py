"""Import-only stand-in for `truststore` (absent in /venv).

`llama_agents.core.client.ssl_util` imports it at module level and only uses it when
LLAMA_DEPLOY_USE_TRUSTSTORE is set (never in the checks).  No behaviour.
"""


class SSLContext:
    def __init__(self, *_a, **_k):
        raise NotImplementedError("truststore stand-in: not available in this sandbox")


def inject_into_ssl() -> None:
    raise NotImplementedError("truststore stand-in: not available in this sandbox")


def extract_from_ssl() -> None:
    raise NotImplementedError("truststore stand-in: not available in this sandbox")
