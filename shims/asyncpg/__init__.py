"""Import-only stand-in for asyncpg (not installable offline). Nothing here is functional: code paths that would talk to
Postgres are never exercised by any check; only modules that merely import asyncpg for type annotations are loaded."""


class Pool:  # pragma: no cover - annotation only
    pass


class Connection:  # pragma: no cover - annotation only
    pass


class Record(dict):  # pragma: no cover - annotation only
    pass


async def create_pool(*a, **k):  # pragma: no cover
    raise RuntimeError("asyncpg is a stand-in: Postgres is not available in this sandbox")


async def connect(*a, **k):  # pragma: no cover
    raise RuntimeError("asyncpg is a stand-in: Postgres is not available in this sandbox")
