"""Import-only stand-in for PyJWT (absent in /venv, not installable offline).

Lets `llama_agents.cli.auth.client` (imported by the llamactl AuthService module) import.
No behaviour: every entry point raises, so a check that reached token decoding would fail
loudly instead of silently passing.  Used by C37 (which never decodes a token).
"""


class PyJWTError(Exception):
    pass


class InvalidTokenError(PyJWTError):
    pass


def _absent(*_a, **_k):
    raise NotImplementedError("jwt stand-in: PyJWT is not available in this sandbox")


decode = _absent
encode = _absent
get_unverified_header = _absent
