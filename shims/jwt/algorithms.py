"""Import-only stand-in for jwt.algorithms (see jwt/__init__.py)."""


class RSAAlgorithm:
    SHA256 = "SHA256"

    def __init__(self, *_a, **_k):
        raise NotImplementedError("jwt stand-in: PyJWT is not available in this sandbox")

    @staticmethod
    def from_jwk(*_a, **_k):
        raise NotImplementedError("jwt stand-in: PyJWT is not available in this sandbox")
