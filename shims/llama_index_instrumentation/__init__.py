from .dispatcher import Dispatcher, get_dispatcher  # noqa
