from pydantic import BaseModel, ConfigDict
class BaseEvent(BaseModel):
    model_config = ConfigDict(arbitrary_types_allowed=True)
    @classmethod
    def class_name(cls): return "BaseEvent"
