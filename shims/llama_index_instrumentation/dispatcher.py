from contextlib import contextmanager
from contextvars import ContextVar
active_instrument_tags = ContextVar("instrument_tags", default={})
@contextmanager
def instrument_tags(new_tags):
    tok = active_instrument_tags.set(new_tags)
    try: yield
    finally: active_instrument_tags.reset(tok)
class Dispatcher:
    def __init__(self, name="root"): self.name = name
    def span(self, func): return func
    def event(self, event, **kw): pass
    def span_enter(self, *a, **k): pass
    def span_exit(self, *a, **k): pass
    def span_drop(self, *a, **k): pass
    def capture_propagation_context(self): return dict(active_instrument_tags.get())
    def restore_propagation_context(self, ctx): pass
_d = {}
def get_dispatcher(name="root"):
    return _d.setdefault(name, Dispatcher(name))
