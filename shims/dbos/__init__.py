"""Import-only stand-in for the DBOS Transact library (not installable offline).

`llama_agents.dbos.runtime` / `idle_release` import `DBOS`, `SetWorkflowID`, `WorkflowHandleAsync` and decorate
functions with `DBOS.step()` / `DBOS.workflow()` at import time.  Here the decorators are identities and every
call that would reach the DBOS engine raises: no check runs `DBOSRuntime`, `ExternalDBOSAdapter` or the I/O
methods of `InternalDBOSAdapter` -- C27 replaces exactly those I/O methods by an explicit in-harness emulation
(see vlib/props/c27.py) and runs the journal-directed `wait_for_next_task` unchanged.

The only functional piece is `dbos._context.get_local_dbos_context()`, which returns whatever object the harness
installed with `dbos._context._set_local_dbos_context(obj)` (C27 installs the current emulated "life", whose
`function_id` attribute is the id of the last durable operation it started).
"""

from __future__ import annotations

from typing import Any, Generic, TypeVar

T = TypeVar("T")


class _NotAvailable(RuntimeError):
    pass


def _na(*a: Any, **k: Any) -> Any:
    raise _NotAvailable("dbos is a stand-in: the DBOS engine is not available in this sandbox")


async def _na_async(*a: Any, **k: Any) -> Any:
    raise _NotAvailable("dbos is a stand-in: the DBOS engine is not available in this sandbox")


class DBOS:
    workflow_id: str | None = None

    def __init__(self, *a: Any, **k: Any) -> None:
        pass

    # decorators: identities (functions stay plain Python functions)
    @staticmethod
    def step(*dargs: Any, **dkw: Any):
        def deco(fn):
            return fn

        return deco

    @staticmethod
    def workflow(*dargs: Any, **dkw: Any):
        def deco(fn):
            return fn

        return deco

    launch = staticmethod(_na)
    destroy = staticmethod(_na)
    send = staticmethod(_na)
    send_async = staticmethod(_na_async)
    recv_async = staticmethod(_na_async)
    write_stream_async = staticmethod(_na_async)
    start_workflow_async = staticmethod(_na_async)
    retrieve_workflow_async = staticmethod(_na_async)
    delete_workflow_async = staticmethod(_na_async)
    list_workflows_async = staticmethod(_na_async)
    cancel_workflow_async = staticmethod(_na_async)

    @staticmethod
    def read_stream_async(*a: Any, **k: Any):
        async def gen():
            _na()
            yield None  # pragma: no cover

        return gen()


class SetWorkflowID:
    def __init__(self, workflow_id: str) -> None:
        self.workflow_id = workflow_id

    def __enter__(self) -> "SetWorkflowID":
        return self

    def __exit__(self, *exc: Any) -> bool:
        return False


class WorkflowHandleAsync(Generic[T]):
    workflow_id: str = ""

    async def get_result(self, *a: Any, **k: Any) -> T:
        return _na()

    async def get_status(self, *a: Any, **k: Any) -> Any:
        return _na()
