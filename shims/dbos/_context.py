"""Stand-in for dbos._context: the 'local DBOS context' is whatever object the harness installed."""

from __future__ import annotations

from contextvars import ContextVar
from typing import Any

_ctx: ContextVar[Any] = ContextVar("verif_dbos_ctx", default=None)


def get_local_dbos_context() -> Any:
    return _ctx.get()


def _set_local_dbos_context(obj: Any):
    """Harness-side: install `obj` (needs a `function_id` attribute) as the context of the current task tree."""
    return _ctx.set(obj)
