"""Stand-in for dbos._dbos (import-only)."""


def _get_dbos_instance():
    raise RuntimeError("dbos is a stand-in: there is no DBOS instance in this sandbox")
