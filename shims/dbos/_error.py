"""Stand-in for dbos._error (import-only)."""


class DBOSException(Exception):
    pass


class DBOSNonExistentWorkflowError(DBOSException):
    pass


class DBOSUnexpectedStepError(DBOSException):
    pass
