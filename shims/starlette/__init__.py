"""Structural stand-in for the third-party `starlette` package (absent from /venv, no wheel offline).

Purpose: let repository modules that `import starlette...` be imported unchanged and let their
request-handler coroutines be called *directly* by a harness (`await api._handler(Request(...))`).
It is NOT an ASGI implementation: there is no routing dispatch, no middleware execution, no
network I/O and no background work.  Importing it has no side effects.

What is provided (same module paths / class names / attribute names as starlette 0.4x):
  applications.Starlette        holds routes/middleware/exception_handlers/lifespan; mount/add_route
  routing.Route/Mount/Router/WebSocketRoute   data holders (path, endpoint, methods, name, routes)
  requests.Request              scope-based: path_params, query_params, headers, method, url.path,
                                cookies, client, state, app, body()/json()/stream()/is_disconnected();
                                Request.build(...) convenience constructor for harnesses
  datastructures                Headers (case-insensitive), QueryParams (multi-dict), URL, State
  responses                     Response, JSONResponse, PlainTextResponse, HTMLResponse,
                                RedirectResponse, StreamingResponse (keeps `body_iterator`)
  exceptions.HTTPException      status_code / detail / headers
  middleware.Middleware, middleware.cors.CORSMiddleware, middleware.base.BaseHTTPMiddleware
  schemas.SchemaGenerator       docstring ("---" + YAML) -> OpenAPI paths, like starlette's
  staticfiles.StaticFiles, background.BackgroundTask(s), concurrency.run_in_threadpool (inline),
  status (HTTP_* constants), types (aliases)
"""

__version__ = "0.0.verif-shim"
