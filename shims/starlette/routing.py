from __future__ import annotations

from typing import Any, Sequence


def get_name(endpoint: Any) -> str:
    return getattr(endpoint, "__name__", endpoint.__class__.__name__)


class BaseRoute:
    pass


class Route(BaseRoute):
    def __init__(
        self,
        path: str,
        endpoint: Any,
        *,
        methods: Sequence[str] | None = None,
        name: str | None = None,
        include_in_schema: bool = True,
        middleware: Any = None,
    ) -> None:
        self.path = path
        self.endpoint = endpoint
        self.name = get_name(endpoint) if name is None else name
        self.include_in_schema = include_in_schema
        if methods is None:
            self.methods: set[str] | None = {"GET", "HEAD"}
        else:
            self.methods = {m.upper() for m in methods}
            if "GET" in self.methods:
                self.methods.add("HEAD")
        self.middleware = middleware

    def __repr__(self) -> str:
        return f"Route(path={self.path!r}, name={self.name!r}, methods={sorted(self.methods or [])!r})"


class WebSocketRoute(BaseRoute):
    def __init__(self, path: str, endpoint: Any, *, name: str | None = None, middleware: Any = None) -> None:
        self.path = path
        self.endpoint = endpoint
        self.name = get_name(endpoint) if name is None else name
        self.middleware = middleware


class Mount(BaseRoute):
    def __init__(
        self,
        path: str,
        app: Any = None,
        routes: Sequence[BaseRoute] | None = None,
        name: str | None = None,
        *,
        middleware: Any = None,
    ) -> None:
        self.path = path.rstrip("/")
        self.app = app if app is not None else Router(routes=routes)
        self.name = name
        self.middleware = middleware

    @property
    def routes(self) -> list[BaseRoute]:
        return getattr(self.app, "routes", [])


class Host(Mount):
    pass


class Router:
    def __init__(self, routes: Sequence[BaseRoute] | None = None, redirect_slashes: bool = True, default: Any = None, lifespan: Any = None, *, middleware: Any = None, **kw: Any) -> None:
        self.routes: list[BaseRoute] = list(routes or [])
        self.redirect_slashes = redirect_slashes
        self.default = default
        self.lifespan_context = lifespan
        self.middleware = middleware

    def mount(self, path: str, app: Any, name: str | None = None) -> None:
        self.routes.append(Mount(path, app=app, name=name))

    def add_route(self, path: str, endpoint: Any, methods: Sequence[str] | None = None, name: str | None = None, include_in_schema: bool = True) -> None:
        self.routes.append(Route(path, endpoint, methods=methods, name=name, include_in_schema=include_in_schema))

    async def __call__(self, scope: Any, receive: Any, send: Any) -> None:
        raise NotImplementedError("starlette shim: no ASGI dispatch; call the endpoint coroutine directly")
