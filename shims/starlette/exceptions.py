from __future__ import annotations

import http
from typing import Any, Mapping


class HTTPException(Exception):
    def __init__(self, status_code: int, detail: Any = None, headers: Mapping[str, str] | None = None) -> None:
        if detail is None:
            try:
                detail = http.HTTPStatus(status_code).phrase
            except ValueError:
                detail = ""
        self.status_code = status_code
        self.detail = detail
        self.headers = headers
        super().__init__(status_code, detail)

    def __str__(self) -> str:
        return f"{self.status_code}: {self.detail}"

    def __repr__(self) -> str:
        return f"{type(self).__name__}(status_code={self.status_code!r}, detail={self.detail!r})"


class WebSocketException(Exception):
    def __init__(self, code: int, reason: str | None = None) -> None:
        self.code = code
        self.reason = reason or ""
        super().__init__(code, self.reason)
