from __future__ import annotations

from typing import Any, Iterable, Iterator, Mapping
from urllib.parse import parse_qsl, urlencode


class _MultiDict(Mapping[str, str]):
    """Immutable multi-dict: [] / get return the LAST value of a key (starlette semantics)."""

    def __init__(self, items: Any = None) -> None:
        if items is None:
            pairs: list[tuple[str, str]] = []
        elif isinstance(items, _MultiDict):
            pairs = list(items._list)
        elif isinstance(items, Mapping):
            pairs = [(str(k), str(v)) for k, v in items.items()]
        else:
            pairs = [(str(k), str(v)) for k, v in items]
        self._list = pairs
        self._dict = {k: v for k, v in pairs}

    def getlist(self, key: Any) -> list[str]:
        return [v for k, v in self._list if k == key]

    def multi_items(self) -> list[tuple[str, str]]:
        return list(self._list)

    def __getitem__(self, key: str) -> str:
        return self._dict[key]

    def __contains__(self, key: Any) -> bool:
        return key in self._dict

    def __iter__(self) -> Iterator[str]:
        return iter(self._dict)

    def __len__(self) -> int:
        return len(self._dict)

    def __eq__(self, other: Any) -> bool:
        return isinstance(other, type(self)) and sorted(self._list) == sorted(other._list)

    def __repr__(self) -> str:
        return f"{type(self).__name__}({self._list!r})"


class QueryParams(_MultiDict):
    def __init__(self, items: Any = None) -> None:
        if isinstance(items, bytes):
            items = items.decode("latin-1")
        if isinstance(items, str):
            items = parse_qsl(items, keep_blank_values=True)
        super().__init__(items)

    def __str__(self) -> str:
        return urlencode(self._list)


class Headers(Mapping[str, str]):
    """Case-insensitive, multi-valued; [] / get return the FIRST value (starlette semantics)."""

    def __init__(self, headers: Any = None, raw: Iterable[tuple[bytes, bytes]] | None = None, scope: Any = None) -> None:
        pairs: list[tuple[str, str]] = []
        if headers is not None:
            it = headers.items() if isinstance(headers, Mapping) else headers
            pairs = [(str(k).lower(), str(v)) for k, v in it]
        elif raw is not None:
            pairs = [(k.decode("latin-1").lower(), v.decode("latin-1")) for k, v in raw]
        elif scope is not None:
            pairs = [(k.decode("latin-1").lower(), v.decode("latin-1")) for k, v in scope.get("headers", [])]
        self._list = pairs

    @property
    def raw(self) -> list[tuple[bytes, bytes]]:
        return [(k.encode("latin-1"), v.encode("latin-1")) for k, v in self._list]

    def getlist(self, key: str) -> list[str]:
        k = key.lower()
        return [v for kk, v in self._list if kk == k]

    def __getitem__(self, key: str) -> str:
        k = key.lower()
        for kk, v in self._list:
            if kk == k:
                return v
        raise KeyError(key)

    def __contains__(self, key: Any) -> bool:
        k = str(key).lower()
        return any(kk == k for kk, _ in self._list)

    def __iter__(self) -> Iterator[str]:
        return iter([k for k, _ in self._list])

    def __len__(self) -> int:
        return len(self._list)

    def __repr__(self) -> str:
        return f"Headers({self._list!r})"


class MutableHeaders(Headers):
    def __setitem__(self, key: str, value: str) -> None:
        k = key.lower()
        self._list = [(kk, v) for kk, v in self._list if kk != k] + [(k, str(value))]

    def __delitem__(self, key: str) -> None:
        k = key.lower()
        self._list = [(kk, v) for kk, v in self._list if kk != k]

    def append(self, key: str, value: str) -> None:
        self._list.append((key.lower(), str(value)))


class URL:
    def __init__(self, url: str = "", scope: Any = None) -> None:
        if scope is not None:
            path = scope.get("root_path", "") + scope.get("path", "/")
            qs = scope.get("query_string", b"")
            qs = qs.decode("latin-1") if isinstance(qs, bytes) else qs
            url = path + ("?" + qs if qs else "")
        self._url = url

    @property
    def path(self) -> str:
        return self._url.split("?", 1)[0]

    @property
    def query(self) -> str:
        return self._url.split("?", 1)[1] if "?" in self._url else ""

    def __str__(self) -> str:
        return self._url

    def __repr__(self) -> str:
        return f"URL({self._url!r})"

    def __eq__(self, other: Any) -> bool:
        return str(self) == str(other)


class State:
    def __init__(self, state: dict | None = None) -> None:
        object.__setattr__(self, "_state", state if state is not None else {})

    def __setattr__(self, key: str, value: Any) -> None:
        self._state[key] = value

    def __getattr__(self, key: str) -> Any:
        try:
            return self._state[key]
        except KeyError:
            raise AttributeError(key) from None

    def __delattr__(self, key: str) -> None:
        del self._state[key]
