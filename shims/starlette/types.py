from typing import Any, Awaitable, Callable, MutableMapping

Scope = MutableMapping[str, Any]
Message = MutableMapping[str, Any]
Receive = Callable[[], Awaitable[Message]]
Send = Callable[[Message], Awaitable[None]]
ASGIApp = Callable[[Scope, Receive, Send], Awaitable[None]]
Lifespan = Any
ExceptionHandler = Callable[..., Any]
