from __future__ import annotations

from typing import Any, Mapping, Sequence

from .datastructures import State
from .routing import BaseRoute, Router


class Starlette:
    """Data holder with starlette's constructor signature; no ASGI dispatch."""

    def __init__(
        self,
        debug: bool = False,
        routes: Sequence[BaseRoute] | None = None,
        middleware: Sequence[Any] | None = None,
        exception_handlers: Mapping[Any, Any] | None = None,
        on_startup: Sequence[Any] | None = None,
        on_shutdown: Sequence[Any] | None = None,
        lifespan: Any = None,
    ) -> None:
        self.debug = debug
        self.state = State()
        self.router = Router(routes, lifespan=lifespan)
        self.exception_handlers = {} if exception_handlers is None else dict(exception_handlers)
        self.user_middleware = [] if middleware is None else list(middleware)
        self.on_startup = list(on_startup or [])
        self.on_shutdown = list(on_shutdown or [])
        self.lifespan = lifespan
        self.middleware_stack = None

    @property
    def routes(self) -> list[BaseRoute]:
        return self.router.routes

    def mount(self, path: str, app: Any, name: str | None = None) -> None:
        self.router.mount(path, app=app, name=name)

    def add_route(self, path: str, route: Any, methods: Sequence[str] | None = None, name: str | None = None, include_in_schema: bool = True) -> None:
        self.router.add_route(path, route, methods=methods, name=name, include_in_schema=include_in_schema)

    def add_middleware(self, middleware_class: Any, *args: Any, **kwargs: Any) -> None:
        from .middleware import Middleware

        self.user_middleware.insert(0, Middleware(middleware_class, *args, **kwargs))

    def add_exception_handler(self, exc_class_or_status_code: Any, handler: Any) -> None:
        self.exception_handlers[exc_class_or_status_code] = handler

    async def __call__(self, scope: Any, receive: Any, send: Any) -> None:
        raise NotImplementedError("starlette shim: no ASGI dispatch; call the endpoint coroutine directly")
