from __future__ import annotations

from typing import Any


async def run_in_threadpool(func: Any, *args: Any, **kwargs: Any) -> Any:
    """Runs `func` inline (no thread): deterministic under a virtual-time loop."""
    return func(*args, **kwargs)


async def iterate_in_threadpool(iterator: Any):
    for x in iterator:
        yield x
