from __future__ import annotations

import inspect
from typing import Any, NamedTuple

from .responses import Response
from .routing import Mount, Route


class OpenAPIResponse(Response):
    media_type = "application/vnd.oai.openapi"

    def render(self, content: Any) -> bytes:
        import yaml

        return yaml.dump(content, default_flow_style=False).encode("utf-8")


class EndpointInfo(NamedTuple):
    path: str
    http_method: str
    func: Any


class BaseSchemaGenerator:
    def get_schema(self, routes: list) -> dict:
        raise NotImplementedError

    def get_endpoints(self, routes: list) -> list[EndpointInfo]:
        out: list[EndpointInfo] = []
        for route in routes:
            if isinstance(route, Mount):
                sub = self.get_endpoints(list(route.routes or []))
                out.extend(EndpointInfo(route.path + e.path, e.http_method, e.func) for e in sub)
            elif not isinstance(route, Route) or not route.include_in_schema:
                continue
            elif inspect.isfunction(route.endpoint) or inspect.ismethod(route.endpoint):
                for method in sorted(route.methods or ["GET"]):
                    if method == "HEAD":
                        continue
                    out.append(EndpointInfo(route.path, method.lower(), route.endpoint))
            else:
                for method in ["get", "post", "put", "patch", "delete", "options"]:
                    if hasattr(route.endpoint, method):
                        out.append(EndpointInfo(route.path, method, getattr(route.endpoint, method)))
        return out

    def parse_docstring(self, func_or_method: Any) -> dict:
        import yaml

        docstring = func_or_method.__doc__
        if not docstring:
            return {}
        docstring = docstring.split("---")[-1]
        parsed = yaml.safe_load(docstring)
        if not isinstance(parsed, dict):
            return {}
        return parsed

    def OpenAPIResponse(self, request: Any) -> Response:
        routes = request.app.routes
        return OpenAPIResponse(self.get_schema(routes=routes))


class SchemaGenerator(BaseSchemaGenerator):
    def __init__(self, base_schema: dict) -> None:
        self.base_schema = base_schema

    def get_schema(self, routes: list) -> dict:
        schema = dict(self.base_schema)
        schema.setdefault("paths", {})
        for endpoint in self.get_endpoints(routes):
            parsed = self.parse_docstring(endpoint.func)
            if not parsed:
                continue
            schema["paths"].setdefault(endpoint.path, {})
            schema["paths"][endpoint.path][endpoint.http_method] = parsed
        return schema
