from __future__ import annotations

import inspect
from typing import Any


class BackgroundTask:
    def __init__(self, func: Any, *args: Any, **kwargs: Any) -> None:
        self.func = func
        self.args = args
        self.kwargs = kwargs

    async def __call__(self) -> None:
        res = self.func(*self.args, **self.kwargs)
        if inspect.isawaitable(res):
            await res


class BackgroundTasks(BackgroundTask):
    def __init__(self, tasks: Any = None) -> None:
        self.tasks = list(tasks or [])

    def add_task(self, func: Any, *args: Any, **kwargs: Any) -> None:
        self.tasks.append(BackgroundTask(func, *args, **kwargs))

    async def __call__(self) -> None:
        for t in self.tasks:
            await t()
