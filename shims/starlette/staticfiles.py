from __future__ import annotations

from typing import Any


class StaticFiles:
    def __init__(self, *, directory: Any = None, packages: Any = None, html: bool = False, check_dir: bool = True, follow_symlink: bool = False) -> None:
        self.directory = directory
        self.packages = packages
        self.html = html
        self.routes: list = []

    async def __call__(self, scope: Any, receive: Any, send: Any) -> None:
        raise NotImplementedError("starlette shim: static files are not served")
