from __future__ import annotations

import json as _json
from typing import Any, AsyncIterator, Mapping
from urllib.parse import urlencode

from .datastructures import URL, Headers, QueryParams, State


class ClientDisconnect(Exception):
    pass


class HTTPConnection(Mapping[str, Any]):
    def __init__(self, scope: Any = None, receive: Any = None, send: Any = None) -> None:
        self.scope = scope if scope is not None else {"type": "http"}
        self._receive = receive
        self._send = send

    def __getitem__(self, key: str) -> Any:
        return self.scope[key]

    def __iter__(self):
        return iter(self.scope)

    def __len__(self) -> int:
        return len(self.scope)

    __eq__ = object.__eq__
    __hash__ = object.__hash__

    @property
    def app(self) -> Any:
        return self.scope.get("app")

    @property
    def url(self) -> URL:
        return URL(scope=self.scope)

    @property
    def base_url(self) -> URL:
        return URL(self.scope.get("root_path", "") + "/")

    @property
    def headers(self) -> Headers:
        if not hasattr(self, "_headers"):
            self._headers = Headers(scope=self.scope)
        return self._headers

    @property
    def query_params(self) -> QueryParams:
        if not hasattr(self, "_query_params"):
            self._query_params = QueryParams(self.scope.get("query_string", b""))
        return self._query_params

    @property
    def path_params(self) -> dict[str, Any]:
        return self.scope.get("path_params", {})

    @property
    def cookies(self) -> dict[str, str]:
        out: dict[str, str] = {}
        for chunk in self.headers.get("cookie", "").split(";"):
            if "=" in chunk:
                k, v = chunk.split("=", 1)
                out[k.strip()] = v.strip()
        return out

    @property
    def client(self) -> Any:
        return self.scope.get("client")

    @property
    def state(self) -> State:
        if not hasattr(self, "_state"):
            self.scope.setdefault("state", {})
            self._state = State(self.scope["state"])
        return self._state


class Request(HTTPConnection):
    """`Request(scope, receive, send)` as in starlette; `Request.build(...)` is the harness helper.

    The body comes from `scope["_body"]` (bytes) when no `receive` callable is given.
    `is_disconnected()` reads `scope["_disconnected"]` (default False).
    """

    @classmethod
    def build(
        cls,
        method: str = "GET",
        path: str = "/",
        *,
        path_params: dict[str, Any] | None = None,
        query: Any = None,
        headers: Any = None,
        body: bytes | None = None,
        json: Any = None,
        app: Any = None,
    ) -> "Request":
        if query is None:
            qs = b""
        elif isinstance(query, (bytes, str)):
            qs = query.encode("latin-1") if isinstance(query, str) else query
        else:
            it = query.items() if isinstance(query, Mapping) else query
            qs = urlencode([(k, v) for k, v in it]).encode("latin-1")
        hl: list[tuple[bytes, bytes]] = []
        if headers is not None:
            it = headers.items() if isinstance(headers, Mapping) else headers
            hl = [(str(k).lower().encode("latin-1"), str(v).encode("latin-1")) for k, v in it]
        if json is not None:
            body = _json.dumps(json).encode()
            hl.append((b"content-type", b"application/json"))
        scope = {
            "type": "http",
            "method": method.upper(),
            "path": path,
            "root_path": "",
            "query_string": qs,
            "headers": hl,
            "path_params": dict(path_params or {}),
            "app": app,
            "_body": body or b"",
        }
        return cls(scope)

    @property
    def method(self) -> str:
        return self.scope.get("method", "GET")

    async def stream(self) -> AsyncIterator[bytes]:
        if hasattr(self, "_body"):
            yield self._body
            yield b""
            return
        if self._receive is None:
            yield self.scope.get("_body", b"")
            yield b""
            return
        while True:
            message = await self._receive()
            if message["type"] == "http.request":
                chunk = message.get("body", b"")
                if chunk:
                    yield chunk
                if not message.get("more_body", False):
                    break
            elif message["type"] == "http.disconnect":
                raise ClientDisconnect()
        yield b""

    async def body(self) -> bytes:
        if not hasattr(self, "_body"):
            chunks = []
            async for c in self.stream():
                chunks.append(c)
            self._body = b"".join(chunks)
        return self._body

    async def json(self) -> Any:
        if not hasattr(self, "_json"):
            self._json = _json.loads(await self.body())
        return self._json

    async def is_disconnected(self) -> bool:
        return bool(self.scope.get("_disconnected", False))
