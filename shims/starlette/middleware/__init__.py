from __future__ import annotations

from typing import Any, Iterator


class Middleware:
    def __init__(self, cls: Any, *args: Any, **kwargs: Any) -> None:
        self.cls = cls
        self.args = args
        self.kwargs = kwargs

    def __iter__(self) -> Iterator[Any]:
        return iter((self.cls, self.args, self.kwargs))

    def __repr__(self) -> str:
        return f"Middleware({getattr(self.cls, '__name__', self.cls)!r})"
