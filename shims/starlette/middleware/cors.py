from __future__ import annotations

from typing import Any, Sequence

ALL_METHODS = ("DELETE", "GET", "HEAD", "OPTIONS", "PATCH", "POST", "PUT")


class CORSMiddleware:
    def __init__(
        self,
        app: Any = None,
        allow_origins: Sequence[str] = (),
        allow_methods: Sequence[str] = ("GET",),
        allow_headers: Sequence[str] = (),
        allow_credentials: bool = False,
        allow_origin_regex: str | None = None,
        expose_headers: Sequence[str] = (),
        max_age: int = 600,
    ) -> None:
        self.app = app
        self.allow_origins = allow_origins
        self.allow_methods = allow_methods
        self.allow_headers = allow_headers
        self.allow_credentials = allow_credentials
        self.allow_origin_regex = allow_origin_regex
        self.expose_headers = expose_headers
        self.max_age = max_age

    async def __call__(self, scope: Any, receive: Any, send: Any) -> None:
        raise NotImplementedError("starlette shim: middleware is not executed")
