from __future__ import annotations

from typing import Any


class BaseHTTPMiddleware:
    def __init__(self, app: Any = None, dispatch: Any = None) -> None:
        self.app = app
        self.dispatch_func = self.dispatch if dispatch is None else dispatch

    async def dispatch(self, request: Any, call_next: Any) -> Any:
        return await call_next(request)

    async def __call__(self, scope: Any, receive: Any, send: Any) -> None:
        raise NotImplementedError("starlette shim: middleware is not executed")
