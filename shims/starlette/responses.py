from __future__ import annotations

import json
from typing import Any, AsyncIterator, Iterable, Mapping

from .datastructures import MutableHeaders


class Response:
    media_type: str | None = None
    charset = "utf-8"

    def __init__(
        self,
        content: Any = None,
        status_code: int = 200,
        headers: Mapping[str, str] | None = None,
        media_type: str | None = None,
        background: Any = None,
    ) -> None:
        self.status_code = status_code
        if media_type is not None:
            self.media_type = media_type
        self.background = background
        self.body = self.render(content)
        self._init_headers(headers)

    def render(self, content: Any) -> bytes:
        if content is None:
            return b""
        if isinstance(content, (bytes, memoryview)):
            return bytes(content)
        return str(content).encode(self.charset)

    def _init_headers(self, headers: Mapping[str, str] | None) -> None:
        self.headers = MutableHeaders(headers or {})
        if self.media_type is not None and "content-type" not in self.headers:
            ct = self.media_type
            if ct.startswith("text/") and "charset=" not in ct:
                ct += "; charset=" + self.charset
            self.headers["content-type"] = ct

    async def __call__(self, scope: Any, receive: Any, send: Any) -> None:
        raise NotImplementedError("starlette shim: responses are inspected, not sent over ASGI")


class PlainTextResponse(Response):
    media_type = "text/plain"


class HTMLResponse(Response):
    media_type = "text/html"


class JSONResponse(Response):
    media_type = "application/json"

    def render(self, content: Any) -> bytes:
        return json.dumps(content, ensure_ascii=False, allow_nan=False, indent=None, separators=(",", ":")).encode("utf-8")


class RedirectResponse(Response):
    def __init__(self, url: Any, status_code: int = 307, headers: Mapping[str, str] | None = None, background: Any = None) -> None:
        super().__init__(content=b"", status_code=status_code, headers=headers, background=background)
        self.headers["location"] = str(url)


async def _aiter(it: Iterable[Any]) -> AsyncIterator[Any]:
    for x in it:
        yield x


class StreamingResponse(Response):
    """Keeps the content iterator as `body_iterator` (as starlette does); nothing is consumed here."""

    def __init__(
        self,
        content: Any,
        status_code: int = 200,
        headers: Mapping[str, str] | None = None,
        media_type: str | None = None,
        background: Any = None,
    ) -> None:
        if hasattr(content, "__aiter__"):
            self.body_iterator = content
        else:
            self.body_iterator = _aiter(content)
        self.status_code = status_code
        self.media_type = self.media_type if media_type is None else media_type
        self.background = background
        self._init_headers(headers)


class FileResponse(Response):
    def __init__(self, path: Any, status_code: int = 200, headers: Mapping[str, str] | None = None, media_type: str | None = None, filename: str | None = None, **kw: Any) -> None:
        self.path = path
        self.filename = filename
        self.status_code = status_code
        if media_type is not None:
            self.media_type = media_type
        self.background = kw.get("background")
        self.body = b""
        self._init_headers(headers)
