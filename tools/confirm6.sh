#!/bin/bash
# usage: tools/confirm6.sh <ID> <slug>   (round-6 seeds live in /tmp/seed6/<ID>)
ID=$1; SLUG=$2; WT=/tmp/seed6/$ID
(cd $WT && git diff -- packages src | diff -q - SEED/patch.diff >/dev/null && echo "$ID worktree matches patch" || echo "$ID WORKTREE MISMATCH")
/verif/tools/confirm_seed.sh $ID $WT $ID-$SLUG 2>&1 | grep -E "passed|failed|rc=|VIOLATION|cannot" | tr '\n' ' '; echo
git -C /repo worktree remove --force $WT
