#!/usr/bin/env python3
"""Sensitivity runner (not a registered check).

usage: tools/sens.py C07 [mutant-name ...]
Reads mutants/<ID>.json: [{"name","file","old","new"[,"count"]}], applies each to a scratch copy of
/repo (outside /repo and /verif, removed afterwards), runs ./check <ID> --tier quick with
VERIF_REPO=<scratch> and reports whether the check turned red (exit 1).
Also accepts seeded/<dir>/patch.diff via --patch DIR.
"""
import json, os, shutil, subprocess, sys, tempfile, time

VERIF = os.path.dirname(os.path.dirname(os.path.abspath(__file__)))


def scratch():
    d = tempfile.mkdtemp(prefix="wfsens-")
    dst = os.path.join(d, "repo")
    shutil.copytree("/repo", dst, ignore=shutil.ignore_patterns(".git", "node_modules", "__pycache__", "docs", "examples"))
    return d, dst


def run(pid, repo, seed="1"):
    out = os.path.join(os.path.dirname(repo), "out")  # evidence/replays of mutant runs die with the scratch dir
    env = dict(os.environ, VERIF_REPO=repo, VERIF_SEED=seed, VERIF_SENS="1", VERIF_OUT_DIR=out)
    t = time.time()
    p = subprocess.run([os.path.join(VERIF, "check"), pid, "--tier", "quick"], env=env, capture_output=True, text=True, cwd=VERIF)
    return p.returncode, time.time() - t, (p.stdout + p.stderr)[-600:]


def main():
    pid = sys.argv[1]
    if len(sys.argv) > 3 and sys.argv[2] == "--patch":
        d, repo = scratch()
        try:
            patch = os.path.abspath(sys.argv[3])
            r = subprocess.run(["patch", "-p1", "-s", "-i", patch], cwd=repo, capture_output=True, text=True)
            if r.returncode:
                print("PATCH FAILED", r.stdout, r.stderr); return 2
            rc, dt, tail = run(pid, repo)
            print(f"{pid} patch={sys.argv[3]} rc={rc} {dt:.0f}s\n{tail}")
        finally:
            shutil.rmtree(d, ignore_errors=True)
        return 0
    names = set(sys.argv[2:])
    muts = json.load(open(os.path.join(VERIF, "mutants", f"{pid}.json")))
    rows = []
    for m in muts:
        if names and m["name"] not in names:
            continue
        d, repo = scratch()
        try:
            fp = os.path.join(repo, m["file"])
            s = open(fp).read()
            n = s.count(m["old"])
            if n != m.get("count", 1):
                rows.append((m["name"], f"SKIP(old occurs {n}x)", 0)); print(rows[-1]); continue
            open(fp, "w").write(s.replace(m["old"], m["new"]))
            rc, dt, tail = run(pid, repo)
            verdict = {1: "CAUGHT", 0: "MISSED", 2: "HARNESS-ERROR"}.get(rc, f"rc={rc}")
            rows.append((m["name"], verdict, dt))
            print(f"{pid} {m['name']}: {verdict} ({dt:.0f}s)")
            if rc != 1:
                print(tail)
        finally:
            shutil.rmtree(d, ignore_errors=True)
    # drop replay files produced against mutants
    out = os.path.join(VERIF, "mutants", f"{pid}.result.json")
    json.dump([{"name": a, "verdict": b, "seconds": round(c, 1)} for a, b, c in rows], open(out, "w"), indent=1)
    return 0


if __name__ == "__main__":
    sys.exit(main())
