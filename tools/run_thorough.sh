#!/bin/bash
# Runs every registered check's thorough tier sequentially (each uses 16 processes); prints one line per check.
cd "$(dirname "$0")/.."
./setup.sh >/dev/null 2>&1
for id in $(python3 -c "import json;print(' '.join(c['property_id'] for c in json.load(open('MANIFEST.json'))['checks']))"); do
  t0=$(date +%s)
  out=$(VERIF_OUT_DIR=$PWD/thorough_out ./check $id --tier thorough 2>&1 | grep -v '^KNOWN-FINDING' | tail -3)
  rc=$?
  echo "### $id $(( $(date +%s) - t0 ))s :: $(echo "$out" | tail -1 | cut -c1-220)"
  echo "$out" | grep -E "VIOLATION|HARNESS" | head -3
done
