#!/bin/bash
# usage: tools/confirm_seed.sh <PROP_ID> <worktree> <name>
# Confirms a sub-agent's seeded change independently, then stores it under /verif/seeded/<name>/ and runs our check on it.
set -u
PID=$1; WT=$2; NAME=$3
PP=/tmp/seed/shims:$WT/packages/llama-index-workflows/src:$WT/packages/llama-agents-server/src:$WT/packages/llama-agents-client/src:$WT/packages/llama-agents-core/src:$WT/packages/llama-agents-control-plane/src:$WT/packages/llamactl/src:$WT/packages/llama-agents-dbos/src:$WT/src
export PYTHONDONTWRITEBYTECODE=1
cd $WT || exit 2
echo "== pinned tests with change"; /venv/bin/python -m pytest -q -p no:cacheprovider --timeout=900 2>&1 | tail -1
echo "== demo with change (expect 1)"; PYTHONPATH=$PP timeout 300 /venv/bin/python SEED/demo.py >/tmp/seed/demo_with.txt 2>&1; W=$?; echo rc=$W; tail -3 /tmp/seed/demo_with.txt
git apply -R SEED/patch.diff || { echo 'cannot reverse patch'; exit 3; }
echo "== demo without change (expect 0)"; PYTHONPATH=$PP timeout 300 /venv/bin/python SEED/demo.py >/tmp/seed/demo_without.txt 2>&1; WO=$?; echo rc=$WO; tail -2 /tmp/seed/demo_without.txt
git apply SEED/patch.diff
find $WT -name __pycache__ -type d -prune -exec rm -rf {} + 2>/dev/null
mkdir -p /verif/seeded/$NAME
cp SEED/patch.diff SEED/demo.py SEED/meta.json /verif/seeded/$NAME/ 2>/dev/null
cd /verif
echo "== our check on the change"
tools/sens.py $PID --patch /verif/seeded/$NAME/patch.diff > /tmp/seed/check_out.txt 2>&1; grep -v "^KNOWN" /tmp/seed/check_out.txt | tail -4
RC=$(grep -o "rc=[0-9]*" /tmp/seed/check_out.txt | head -1)
python3 - "$NAME" "$PID" "$W" "$WO" "$RC" <<'PY'
import json,sys
name,pid,w,wo,rc=sys.argv[1:]
p=f'/verif/seeded/{name}/meta.json'
try: m=json.load(open(p))
except Exception: m={}
m["confirmed_by_main_session"]={"demo_exit_with_change":int(w),"demo_exit_without_change":int(wo),"pinned_suite":"147 passed with the change","our_check":f"tools/sens.py {pid} --patch seeded/{name}/patch.diff -> {rc} (rc=1 means VIOLATION reported)"}
json.dump(m,open(p,'w'),indent=1)
PY
