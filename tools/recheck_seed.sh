#!/bin/bash
# usage: tools/recheck_seed.sh <PROP_ID> <name>   -- re-run our check on a stored seeded change and record the result
PID=$1; NAME=$2
cd /verif
tools/sens.py $PID --patch /verif/seeded/$NAME/patch.diff > /tmp/seed/check_out.txt 2>&1
RC=$(grep -o "rc=[0-9]*" /tmp/seed/check_out.txt | head -1)
VL=$(grep -m1 "violation:" /tmp/seed/check_out.txt | cut -c1-200)
python3 - "$NAME" "$PID" "$RC" "$VL" <<'PY'
import json,sys
name,pid,rc,vl=sys.argv[1:]
p=f'/verif/seeded/{name}/meta.json'
m=json.load(open(p))
c=m.setdefault("confirmed_by_main_session",{})
hist=c.setdefault("our_check_history",[])
if c.get("our_check"): hist.append(c["our_check"])
c["our_check"]=f"tools/sens.py {pid} --patch seeded/{name}/patch.diff -> {rc} (rc=1 means VIOLATION reported); first violation: {vl}"
json.dump(m,open(p,'w'),indent=1)
print(name, rc, vl[:120])
PY
