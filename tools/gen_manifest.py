#!/usr/bin/env python3
"""Regenerate MANIFEST.json from tools/manifest_table.json (kept valid at all times)."""
import json, os
V = os.path.dirname(os.path.dirname(os.path.abspath(__file__)))
T = json.load(open(os.path.join(V, "tools", "manifest_table.json")))
checks = []
for c in T["checks"]:
    pid = c["id"]
    checks.append({
        "property_id": pid,
        "quick_cmd": f"./check {pid} --tier quick",
        "thorough_cmd": f"./check {pid} --tier thorough",
        "evidence_file": f"/verif/evidence/{pid}.json",
        "replay_cmd_template": f"./check {pid} --replay {{path}}",
        "engine": c.get("engine", "pbt-runner"),
        "level_claimed": {"category": c.get("level", "exploration"), "text": c["text"], "design_ref": c.get("design_ref", f"DESIGN.md section 3, {pid}")},
        "level_note": c["note"],
        "technique": c["technique"],
    })
claimed = {c["id"] for c in T["checks"]}
props = [json.loads(l)["id"] for l in open(os.path.join(V, "properties.jsonl"))]
na = [{"property_id": p, "reason": T["not_applicable"].get(p, "no sound check built yet in this technique family (work in progress); not claimed")} for p in props if p not in claimed]
M = {
    "version": 1,
    "setup_cmd": "./setup.sh",
    "hooks": {"guard": "WORKFLOWS_PY_VERIF", "enable": "no source hooks are needed: checks import /repo's working tree directly and observe through public extension points and harness-side monkeypatches", "baseline_off_cmd": "cd /repo && /venv/bin/python -m pytest -ra -q -p no:cacheprovider --timeout=900 --continue-on-collection-errors", "source_commits": [], "add_only": True},
    "engines": [
        {"name": "pbt-runner", "path": "/verif/vlib/runner.py", "serves_properties": sorted(claimed), "kind_free_text": "Hypothesis-driven generated-case search with explicit oracles, known-findings matching, replay files, sharded thorough tier"},
        {"name": "virtual-time", "path": "/verif/vlib/boot.py", "serves_properties": sorted(p for p in claimed if p in T.get("virtual", [])), "kind_free_text": "virtual clock + fast-forward asyncio loop so schedules, timers and 'never finishes' are generated and decidable"},
    ],
    "checks": checks,
    "notes": T.get("notes", ""),
    "not_applicable": na,
}
json.dump(M, open(os.path.join(V, "MANIFEST.json"), "w"), indent=1)
print("claimed", len(checks), "not_applicable", len(na))
