#!/bin/bash
# usage: tools/confirm5.sh <ID> <slug>   (round-5 seeds live in /tmp/seed5/<ID>)
ID=$1; SLUG=$2; WT=/tmp/seed5/$ID
(cd $WT && git diff -- packages src | diff -q - SEED/patch.diff >/dev/null && echo "$ID worktree matches patch" || echo "$ID WORKTREE MISMATCH")
/verif/tools/confirm_seed.sh $ID $WT $ID-$SLUG 2>&1 | grep -E "passed|failed|rc=|VIOLATION|cannot" | tr '\n' ' '; echo
git -C /repo worktree remove --force $WT
