#!/usr/bin/env python3
"""Run every registered check's quick command (parallel), report exit codes / wall; not a registered check.
usage: tools/runall.py [--seeds 1,2,3] [--jobs 6] [--out DIR]   (with --out evidence goes to DIR, not /verif/evidence)"""
import argparse, json, os, subprocess, sys, time
from concurrent.futures import ThreadPoolExecutor
V = os.path.dirname(os.path.dirname(os.path.abspath(__file__)))
ap = argparse.ArgumentParser(); ap.add_argument("--seeds", default="1"); ap.add_argument("--jobs", type=int, default=6); ap.add_argument("--out", default=None); ap.add_argument("--only", default=None)
a = ap.parse_args()
M = json.load(open(os.path.join(V, "MANIFEST.json")))
ids = [c["property_id"] for c in M["checks"]]
if a.only: ids = [i for i in ids if i in a.only.split(",")]
def run(job):
    pid, seed = job
    env = dict(os.environ, VERIF_SEED=str(seed))
    if a.out: env["VERIF_OUT_DIR"] = a.out
    t = time.time()
    p = subprocess.run([os.path.join(V, "check"), pid, "--tier", "quick"], cwd=V, env=env, capture_output=True, text=True)
    tail = [l for l in (p.stdout + p.stderr).splitlines() if not l.startswith("KNOWN-FINDING")][-2:]
    return pid, seed, p.returncode, time.time() - t, tail
jobs = [(i, s) for s in a.seeds.split(",") for i in ids]
bad = 0
with ThreadPoolExecutor(a.jobs) as ex:
    for pid, seed, rc, dt, tail in ex.map(run, jobs):
        flag = "" if rc == 0 else "  <<<<<<<<"
        print(f"{pid} seed={seed} rc={rc} {dt:.0f}s{flag}")
        if rc != 0:
            bad += 1
            print("   ", "\n    ".join(tail)[:600])
        sys.stdout.flush()
print("BAD", bad)
