#!/opt/veriftools/pyvenv/bin/python
"""Validate MANIFEST.json and every evidence file against the schemas in /root/.vp."""
import glob, json, sys, jsonschema
ok = True
ms = json.load(open('/root/.vp/MANIFEST.schema.json'))
es = json.load(open('/root/.vp/EVIDENCE.schema.json'))
try:
    jsonschema.validate(json.load(open('/verif/MANIFEST.json')), ms)
except Exception as e:
    ok = False; print('MANIFEST INVALID', str(e)[:300])
M = json.load(open('/verif/MANIFEST.json'))
for c in M['checks']:
    f = c['evidence_file']
    try:
        jsonschema.validate(json.load(open(f)), es)
    except Exception as e:
        ok = False; print('EVIDENCE INVALID', f, str(e)[:300])
print('valid' if ok else 'INVALID', len(M['checks']), 'checks')
sys.exit(0 if ok else 1)
