#!/bin/bash
cd "$(dirname "$0")/.."
./setup.sh >/dev/null 2>&1
for id in C04 C10 C09 C03 C12 C15 C36 C26 C14 C13 C01 C27; do
  t0=$(date +%s)
  out=$(VERIF_OUT_DIR=$PWD/thorough_out ./check $id --tier thorough 2>&1 | grep -v '^KNOWN-FINDING' | tail -3)
  echo "### $id $(( $(date +%s) - t0 ))s :: $(echo "$out" | tail -1 | cut -c1-220)"
  echo "$out" | grep -E "VIOLATION|HARNESS" | head -3
done
