#!/bin/bash
cd "$(dirname "$0")/.."
./setup.sh >/dev/null 2>&1
run_one() {
  id=$1
  t0=$(date +%s)
  out=$(VERIF_OUT_DIR=$PWD/thorough_out/$id ./check $id --tier thorough 2>&1 | grep -v '^KNOWN-FINDING' | tail -3)
  echo "### $id $(( $(date +%s) - t0 ))s :: $(echo "$out" | tail -1 | cut -c1-220)"
  echo "$out" | grep -E "VIOLATION|HARNESS" | head -3
}
# a few at a time (each check already uses several processes)
for group in "C15 C26 C10" "C36 C04"; do
  for id in $group; do run_one $id & done
  wait
done
